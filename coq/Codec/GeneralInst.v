(* C01 - the general structure theorem in the form announced in Props/C01.v
   (C01_encode_decode_structure_statement): node tables over jets = positions in J::ALL, sharing ids given as
   a list, the acyclicity of the ids as the boolean test of Codec/Rules.v. *)
From RS Require Import Lib.Tac Lib.Outcome Lib.Bits Lib.ListExtra Lib.Sweep Bits.Natural Bits.BitIter.
From RS Require Import Dag.DagModel Dag.PostOrderSpec Dag.PostOrderProps Dag.VisitFacts Dag.Acyclic.
From RS Require Import Codec.NodeCodec Codec.JetTab Codec.Linearise Codec.Decode Codec.Structure Codec.DagBridge
  Codec.PostOrderCanon Codec.General Codec.Run Codec.Rules.
Import ListNotations.
Local Open Scope N_scope.

Section Inst.
Variable ns : list dn.
Variable keys : list (option N).
Hypothesis ns_wf : wf_nodes N (fun _ => true) 0 ns.

Let ch := tch N ns.
Let dch := dag_of ch.
Let dkey := key_of (key_list keys).

Lemma dch_wf : wfc dch.
Proof. exact (dag_of_wfc ch (key_list keys) (tch_wf N (fun _ => true) ns ns_wf) (fun n => dchildren_arity N (fun _ => true) _)). Qed.

Lemma is_child_in n c : is_child dch n c -> In (N.of_nat c) (dchildren (node_at ns (N.of_nat n))).
Proof.
  unfold is_child, dch, dag_of, ch, Structure.tch.
  destruct (dchildren (node_at ns (N.of_nat n))) as [|a [|b r]]; cbn [left_child_of right_child_of];
    intros [H|H]; try discriminate; injection H as <-; rewrite N2Nat.id; cbn; auto.
Qed.

Lemma descendants_complete : forall fuel n c x, (n < fuel)%nat -> is_child dch n c -> reach dch c x ->
  In (N.of_nat x) (descendants fuel ns (N.of_nat n)).
Proof.
  induction fuel as [|f IH]; intros n c x Hn Hc Hx; [lia|].
  cbn [descendants]. apply in_flat_map. exists (N.of_nat c). split; [apply is_child_in; exact Hc|].
  pose proof (is_child_lt dch dch_wf _ _ Hc) as Hlt.
  inversion Hx as [|? c2 ? Hc2 Hx2]; subst.
  - left. reflexivity.
  - right. apply (IH c c2 x); [lia|exact Hc2|exact Hx2].
Qed.

Lemma keys_acyclic_sound : keys_acyclic ns keys = true -> key_acyclic dch dkey.
Proof.
  intros H n c x k Hc Hx Hkn Hkx.
  destruct (Nat.lt_ge_cases n (length ns)) as [Hlt|Hge].
  - unfold keys_acyclic in H.
    pose proof (sweep1 _ _ H (N.of_nat n) ltac:(lia)) as Hn. cbv beta in Hn.
    unfold dkey, key_of in Hkn, Hkx. rewrite Hkn in Hn. rewrite forallb_forall in Hn.
    specialize (Hn (N.of_nat x) (descendants_complete (length ns) n c x Hlt Hc Hx)). cbv beta in Hn.
    rewrite Hkx, N.eqb_refl in Hn. discriminate.
  - apply is_child_in in Hc. unfold node_at in Hc. rewrite Nat2N.id, nth_overflow in Hc by exact Hge. destruct Hc.
Qed.

End Inst.

(* THEOREM (all sizes): the encoder's output for any well-formed table and any acyclic sharing-id assignment
   is accepted by the decoder's second pass and re-encodes as itself *)
Theorem encode_decode_structure :
  forall (ns : list dn) (keys : list (option N)),
  wf_nodes N (fun _ => true) 0 ns -> ns <> [] -> keys_acyclic ns keys = true ->
  let lin := linearise ns (key_list keys) in
  (forall d, In d lin -> forall h, d <> DHidden h) ->
  dec_struct lin = Ok tt /\ linearise lin key_ptr = lin.
Proof.
  intros ns keys Hwf Hne Hac lin Hnh.
  pose proof (keys_acyclic_sound ns keys Hwf Hac) as Hac'.
  split.
  - apply (lin_accepted N (fun _ => true) ns (key_list keys)); assumption.
  - apply (lin_fixed N (fun _ => true) ns (key_list keys)); assumption.
Qed.

(* ... with the facts the proof goes through, for any jet type: well-formedness and canonical order hold
   whether or not the list contains hidden nodes *)
Theorem encoder_output_canonical :
  forall (ns : list dn) (keys : list (option N)),
  wf_nodes N (fun _ => true) 0 ns -> ns <> [] -> keys_acyclic ns keys = true ->
  let lin := linearise ns (key_list keys) in
  wf_nodes N (fun _ => true) 0 lin /\ lin <> [] /\ order_ok lin = true.
Proof.
  intros ns keys Hwf Hne Hac lin.
  pose proof (keys_acyclic_sound ns keys Hwf Hac) as Hac'.
  split; [apply (lin_wf N (fun _ => true) ns (key_list keys)); assumption|].
  split; [apply (lin_ne N (fun _ => true) ns (key_list keys)); assumption|].
  unfold order_ok. subst lin. rewrite (lin_canonical_order N (fun _ => true) ns (key_list keys)) by assumption.
  clear. induction (upto (length (linearise ns (key_list keys)))) as [|a l IH]; cbn; [reflexivity|]. rewrite N.eqb_refl. exact IH.
Qed.

(* non-vacuity: a table with duplicated sub-expressions under ids that identify the duplicates; the encoder
   writes the shared form, which the theorem covers *)
Definition ex_general_ns : list dn :=
  [DUnit; DUnit; DPair 0 1; DInjL 2; DUnit; DUnit; DPair 4 5; DInjL 6; DComp 3 7; DWitness; DWitness; DPair 9 10; DPair 8 11].
Definition ex_general_keys : list (option N) :=
  [Some 0; Some 0; Some 1; Some 2; Some 0; Some 0; Some 1; Some 2; Some 3; None; None; None; None].

Example ex_general_premises :
  wf_nodesb N (fun _ => true) 0 ex_general_ns = true /\ keys_acyclic ex_general_ns ex_general_keys = true /\
  linearise ex_general_ns (key_list ex_general_keys) =
    [DUnit; DPair 0 0; DInjL 1; DComp 2 2; DWitness; DWitness; DPair 4 5; DPair 3 6].
Proof. vm_compute. auto. Qed.
