"""C18 - DAG iteration visits every node once, children first, with true indices."""
import glob
import os
import sys

import vplib
from vplib import Case, coq_list

PROP = "C18"
LEVEL = "proof"
IMPORTS = ["Dag.Run"]
CRATE = None  # merged into the main harness crate
COMMAND = "dag"
sys.setrecursionlimit(100000)
LAST_SKIPPED = 0

# A DAG is a list of nodes (), (c,), (l, r) with children at smaller positions; root = any position.
# keys: list of None | int (sharing id per node).


# ------------------------------------------------------------ python reference (the specification)
class TooBig(Exception):
    pass


def ref_post(dag, root, keys, cap=None, swap=False):
    """Recursive specification of post-order iteration with a sharing tracker.
    Returns (items, n_visits); item = (node, index, left|None, right|None).
    swap=True: children are visited right to left (the rtl variant, indices reported for the
    true left/right children)."""
    seen = {}
    out = []
    visits = [0]

    def look(c):
        k = keys[c]
        return seen.get(k) if k is not None else None

    def visit(n):
        visits[0] += 1
        if cap is not None and visits[0] > cap:
            raise TooBig()
        # a node whose class was yielded since its parent looked it up is not expanded again
        s = look(n)
        if s is not None:
            return s
        ch = dag[n]
        order = list(range(len(ch)))
        if swap:
            order.reverse()
        # both children are looked up before any of them is visited
        pre = {i: look(ch[i]) for i in order}
        idx = {}
        for i in order:
            idx[i] = pre[i] if pre[i] is not None else visit(ch[i])
        k = keys[n]
        if k is not None and k in seen:
            return seen[k]
        me = len(out)
        if k is not None:
            seen[k] = me
        out.append((n, me, idx.get(0), idx.get(1)))
        return me

    visit(root)
    return out, visits[0]


def ref_pre(dag, root, keys):
    """Recursive pre-order: a node whose class was seen is skipped together with its subtree."""
    seen = set()
    out = []
    pops = [0]

    def go(n):
        pops[0] += 1
        k = keys[n]
        if k is not None:
            if k in seen:
                return
            seen.add(k)
        out.append(n)
        for c in dag[n]:
            go(c)

    go(root)
    return out, pops[0]


def ref_vpre(dag, root, keys, md):
    """Recursive specification of the verbose pre-order.
    item = (node, parent|None, index, depth, n_children_yielded, complete)"""
    seen = set()
    out = []
    pops = [0]
    index = [0]

    def go(n, depth, parent):
        pops[0] += 1
        k = keys[n]
        if k is not None:
            if k in seen:
                return
            seen.add(k)
        me = index[0]
        index[0] += 1
        ch = dag[n]
        out.append((n, parent, me, depth, 0, len(ch) == 0))
        for i, c in enumerate(ch):
            if md is None or depth < md:
                go(c, depth + 1, n)
            pops[0] += 1
            out.append((n, parent, me, depth, i + 1, i + 1 == len(ch)))

    go(root, 0, None)
    return out, pops[0]


def reachable(dag, root):
    r = set()
    stack = [root]
    while stack:
        n = stack.pop()
        if n in r:
            continue
        r.add(n)
        stack.extend(dag[n])
    return r


def tsizes(dag):
    """size of the tree expansion below each node"""
    t = []
    for ch in dag:
        t.append(1 + sum(t[c] for c in ch))
    return t


def mirror(dag):
    return [tuple(reversed(ch)) for ch in dag]


def congruent(dag, root, keys):
    """nodes with the same sharing id have the same arity and pairwise children that are the same
    node or carry the same sharing id (what a structural hash guarantees)"""
    reach = sorted(reachable(dag, root))
    by = {}
    for n in reach:
        if keys[n] is not None:
            by.setdefault(keys[n], []).append(n)
    for ns in by.values():
        a = ns[0]
        for b in ns[1:]:
            if len(dag[a]) != len(dag[b]):
                return False
            for x, y in zip(dag[a], dag[b]):
                if x != y and (keys[x] is None or keys[x] != keys[y]):
                    return False
    return True


def key_acyclic(dag, root, keys):
    """no reachable node carries the sharing id of one of its own proper descendants
    (true of every hash of the structure below a node)"""
    below = []      # keys occurring strictly below each node
    for ch in dag:
        b = set()
        for c in ch:
            b |= below[c]
            if keys[c] is not None:
                b.add(keys[c])
        below.append(b)
    return all(keys[n] is None or keys[n] not in below[n] for n in reachable(dag, root))


def structural_keys(dag):
    """maximal congruent sharing: hash-consing classes"""
    ids = {}
    ks = []
    for ch in dag:
        sig = tuple(ks[c] for c in ch)
        ks.append(ids.setdefault(sig, len(ids)))
    return ks


# ------------------------------------------------------------ case construction
def dag_str(dag):
    return ",".join(":".join([str(len(ch))] + [str(c) for c in ch]) for ch in dag)


def dag_flat(dag):
    out = []
    for ch in dag:
        out.append(len(ch))
        out.extend(ch)
    return out


def keys_str(keys):
    return ",".join("x" if k is None else str(k) for k in keys)


def parse_dag(s):
    return [tuple(int(x) for x in t.split(":")[1:]) for t in s.split(",")]


def parse_keys(s, n):
    if s == "-":
        return [None] * n
    return [None if x == "x" else int(x) for x in s.split(",")]


def eff_keys(n, mode, keys):
    if mode == 0:
        return [None] * n
    if mode == 1:
        return list(range(n))
    return list(keys)


def fuel_for(dag, root, keys, md, cap):
    _, v1 = ref_post(dag, root, keys, cap)
    _, v2 = ref_post(dag, root, list(range(len(dag))), cap)
    _, v3 = ref_post(dag, root, keys, cap, swap=True)
    _, p1 = ref_pre(dag, root, keys)
    _, p2 = ref_vpre(dag, root, keys, md)
    return max(2 * v1, 2 * v2, 2 * v3, p1, p2) + 3


DIGEST_FUEL = 120   # cases needing more fuel are compared through a digest (length, polynomial hash)
DIGEST_MOD = 2305843009213693951


def digest(r):
    h = 0
    for x in r:
        h = (h * 1000003 + x + 1) % DIGEST_MOD
    return [len(r), h]


def run_expr(dag, root, keys, md, fuel, dig=False):
    return "run_dag%s %s %d %s %d %d" % ("_digest" if dig else "", coq_list(dag_flat(dag)), root,
                                       coq_list([0 if k is None else k + 1 for k in keys]),
                                       0 if md is None else md + 1, fuel)


def mk_dag_case(cid, dag, root, mode, keys, md, cap, model=True):
    """None when the iteration would be larger than `cap` visits."""
    n = len(dag)
    ek = eff_keys(n, mode, keys)
    try:
        fuel = fuel_for(dag, root, ek, md, cap)
    except TooBig:
        return None
    line = "%d %s %d %s %s" % (root, dag_str(dag), mode, keys_str(keys) if mode == 2 else "-",
                               "-" if md is None else md)
    dig = fuel > DIGEST_FUEL
    expr = run_expr(dag, root, ek, md, fuel, dig) if model else None
    return Case(cid, "dag", line, expr, {"dag": dag, "root": root, "mode": mode, "keys": ek, "md": md, "digest": dig})


def mk_prog_case(cid, dag, root, md, cap, model=True, shared_only=False):
    """the table as a real CommitNode program; shared_only: MaxSharing and InternalSharing only
    (tables whose tree expansion is astronomically large)"""
    n = len(dag)
    sk = structural_keys(dag)
    ks = (sk, list(range(n))) if shared_only else (sk, list(range(n)), [None] * n)
    try:
        fs = [fuel_for(dag, root, k, md, cap) for k in ks]
    except TooBig:
        return None
    line = "%d %s %s" % (root, dag_str(dag), "-" if md is None else md)
    expr = None
    dig = max(fs) > DIGEST_FUEL
    if model:
        expr = " ++ ".join("(%s)" % run_expr(dag, root, k, md, f) for k, f in zip(ks, fs))
        if dig:
            expr = "digest (%s)" % expr
    return Case(cid, "progs" if shared_only else "prog", line, expr,
                {"dag": dag, "root": root, "md": md, "skeys": sk, "digest": dig})


def case_from_line(cid, kind, line, cap=20000):
    t = line.split()
    if kind == "dag":
        dag = parse_dag(t[1])
        return mk_dag_case(cid, dag, int(t[0]), int(t[2]), parse_keys(t[3], len(dag)),
                           None if t[4] == "-" else int(t[4]), cap)
    if kind in ("prog", "progs"):
        return mk_prog_case(cid, parse_dag(t[1]), int(t[0]), None if t[2] == "-" else int(t[2]), cap,
                            shared_only=(kind == "progs"))
    raise ValueError(kind)


# ------------------------------------------------------------ generators
def all_shapes(n):
    """every table with n nodes: every arity and every choice of smaller child positions"""
    if n == 0:
        yield []
        return
    for pre in all_shapes(n - 1):
        i = n - 1
        yield pre + [()]
        for a in range(i):
            yield pre + [(a,)]
        for a in range(i):
            for b in range(i):
                yield pre + [(a, b)]


def all_keyings(n):
    """every assignment of `no key` or a block of a set partition (restricted growth strings)"""
    def go(i, cur, nblocks):
        if i == n:
            yield list(cur)
            return
        for k in [None] + list(range(nblocks + 1)):
            cur.append(k)
            yield from go(i + 1, cur, nblocks + (1 if k == nblocks else 0))
            cur.pop()
    yield from go(0, [], 0)


def random_keys(rng, dag, style):
    n = len(dag)
    if style == 0:      # random partition with missing keys (not congruent in general)
        nb = rng.range(1, max(1, n))
        return [None if rng.chance(1, 5) else rng.below(nb) for _ in range(n)]
    if style == 1:      # structural (maximal congruent) sharing
        return structural_keys(dag)
    if style == 2:      # structural classes, some classes without id, some classes split
        sk = structural_keys(dag)
        drop = set(k for k in set(sk) if rng.chance(1, 4))
        ks = []
        for i, k in enumerate(sk):
            ks.append(None if k in drop else k)
        return ks
    if style == 3:      # pointer sharing with a few merged pairs
        ks = list(range(n))
        for _ in range(rng.range(1, 3)):
            a, b = rng.below(n), rng.below(n)
            ks[a] = ks[b]
        return ks
    # a refinement of structural sharing (congruent but not maximal): split leaves only
    sk = structural_keys(dag)
    return [k if dag[i] else (k if rng.chance(1, 2) else 10000 + i) for i, k in enumerate(sk)]


def random_dag(rng, n, style):
    """styles: 0 mixed, 1 diamonds (children from the last few nodes), 2 unary chains with joins,
    3 repeated children / child-and-grandchild, 4 tree-like (little sharing)"""
    dag = [()]
    used = set()
    for i in range(1, n):
        r = rng.below(100)
        recent = lambda w: max(0, i - 1 - rng.below(min(i, w)))
        if style == 1:
            if r < 8:
                ch = ()
            elif r < 25:
                ch = (recent(3),)
            else:
                ch = (recent(3), recent(3))
        elif style == 2:
            if r < 3:
                ch = ()
            elif r < 85:
                ch = (i - 1,)
            else:
                ch = (i - 1, rng.below(i))
        elif style == 3:
            if r < 10:
                ch = ()
            elif r < 25:
                ch = (recent(2),)
            elif r < 50:
                a = recent(2)
                ch = (a, a)
            else:
                a = i - 1
                g = dag[a][rng.below(len(dag[a]))] if dag[a] else recent(4)
                ch = (a, g) if rng.chance(1, 2) else (g, a)
        elif style == 4:
            unused = [j for j in range(i) if j not in used]
            pick = lambda: (unused.pop(rng.below(len(unused))) if unused and not rng.chance(1, 12) else rng.below(i))
            if r < 35 or len(unused) == 0 and r < 60:
                ch = ()
            elif r < 55:
                ch = (pick(),)
            else:
                ch = (pick(), pick())
        else:
            if r < 20:
                ch = ()
            elif r < 45:
                ch = (rng.below(i),)
            else:
                ch = (rng.below(i), recent(5))
        used.update(ch)
        dag.append(tuple(ch))
    return dag


def gen_cases(rng, tier):
    cases = []
    k = [0]
    skipped = [0]
    quick = tier == "quick"
    cap = 800 if quick else 4000

    def add(c):
        if c is None:
            skipped[0] += 1
        else:
            cases.append(c)

    def cid():
        k[0] += 1
        return "c%d" % k[0]

    def md_pick():
        return rng.choice([None, None, None, 0, 1, 2, 3])

    # 0. corpus
    for path in sorted(glob.glob(os.path.join(vplib.VERIF, "corpus", PROP, "*.case"))):
        for ln in open(path):
            ln = ln.strip()
            if not ln or ln.startswith("#"):
                continue
            kind, rest = ln.split(None, 1)
            add(case_from_line(cid(), kind, rest))

    # 1. exhaustive shapes (root = last node; unreachable nodes allowed).  Every case runs on the
    # implementation and through prop_check; in the quick tier the Coq model is evaluated on all
    # cases with <= 3 nodes and on a pseudo-random sixth of the rest (thorough: on all up to 5 nodes,
    # a twelfth of the 6-node tables).
    nmax = 5 if quick else 6

    def mdl(n):
        return (not quick) and n <= 5 or n <= 3 or rng.chance(1, 6 if n <= 5 else 12)

    for n in range(1, nmax + 1):
        for dag in all_shapes(n):
            root = n - 1
            add(mk_dag_case(cid(), dag, root, 0, None, md_pick(), cap, mdl(n)))
            add(mk_dag_case(cid(), dag, root, 1, None, md_pick(), cap, mdl(n)))
            if n <= 4:
                for keys in all_keyings(n):
                    add(mk_dag_case(cid(), dag, root, 2, keys, md_pick(), cap, mdl(n)))
                if n <= 3 or rng.chance(1, 4):
                    add(mk_prog_case(cid(), dag, root, md_pick(), cap, mdl(n)))
            else:
                reps = 2 if n == 5 else 1
                for _ in range(reps):
                    add(mk_dag_case(cid(), dag, root, 2, random_keys(rng, dag, rng.below(5)), md_pick(), cap, mdl(n)))
                if n == 5 and rng.chance(1, 16):
                    add(mk_prog_case(cid(), dag, root, md_pick(), cap, mdl(n)))

    # 2. random larger DAGs
    nrand = 160 if quick else 2000
    nlim = 60 if quick else 400
    for i in range(nrand):
        n = rng.range(6, 24) if i % 3 else rng.range(24, nlim)
        style = rng.below(5)
        dag = random_dag(rng, n, style)
        root = n - 1 if rng.chance(5, 6) else rng.below(n)
        md = md_pick() if rng.chance(1, 2) else rng.choice([None, 4, 7, 12])
        add(mk_dag_case(cid(), dag, root, 1, None, md, cap))
        add(mk_dag_case(cid(), dag, root, 0, None, md, cap))
        for st in rng.shuffle(range(5))[:3]:
            add(mk_dag_case(cid(), dag, root, 2, random_keys(rng, dag, st), md, cap))
        if n <= 16 and rng.chance(1, 3):
            add(mk_prog_case(cid(), dag, root, md, cap))

    # 3. deep tables with an astronomically large tree expansion (chains of repeated children,
    # ladders of diamonds) under the sharing trackers only: an iterator or tracker that expands
    # shared nodes again produces the same items but does not terminate here
    for depth in ((30, 45) if quick else (30, 45, 64, 90)):
        chain = [()] + [(i, i) for i in range(depth)]
        ladder = [(), (0,)] + [(i + 1, i) for i in range(depth - 1)]
        mixed = [()] + [((i, i) if i % 3 else (i,)) for i in range(depth)]
        for dag in (chain, ladder, mixed):
            root = len(dag) - 1
            add(mk_prog_case(cid(), dag, root, rng.choice([None, 3, 7]), cap, shared_only=True))
            add(mk_dag_case(cid(), dag, root, 1, None, rng.choice([None, 3, 7]), cap))
            add(mk_dag_case(cid(), dag, root, 2, structural_keys(dag), rng.choice([None, 3]), cap))
    global LAST_SKIPPED
    LAST_SKIPPED = skipped[0]
    return cases


# ------------------------------------------------------------ the property, tested directly on the implementation
def parse_sections(r, widths):
    """split a flat result into sections; returns list of (status, items) or None if malformed"""
    out = []
    pos = 0
    for w in widths:
        if pos >= len(r):
            return None
        st = r[pos]
        pos += 1
        if st != 0:
            out.append((st, None))
            continue
        if w == 0:      # boolean
            out.append((0, r[pos]))
            pos += 1
            continue
        ln = r[pos]
        pos += 1
        items = [tuple(r[pos + w * i: pos + w * (i + 1)]) for i in range(ln)]
        pos += w * ln
        out.append((0, items))
    return out, pos


def dec(o):
    return None if o == 0 else o - 1


def check_post(dag, root, keys, items, what, is_cong, rtl=False):
    """The statement of C18 for one post-order sequence (`rtl`: the right-to-left variant)."""
    n_items = len(items)
    its = [(nd, ix, dec(l), dec(r)) for (nd, ix, l, r) in items]
    # consecutive numbering
    for pos, it in enumerate(its):
        if it[1] != pos:
            return ("index", "%s: item %d carries index %d" % (what, pos, it[1]))
    reach = reachable(dag, root)
    # each sharing class exactly once
    seen = {}
    for pos, it in enumerate(its):
        if it[0] not in reach:
            return ("unreachable", "%s: yields node %d which is not reachable from the root" % (what, it[0]))
        kk = keys[it[0]]
        if kk is not None:
            if kk in seen:
                return ("twice", "%s: sharing class %d yielded twice (items %d and %d)" % (what, kk, seen[kk], pos))
            seen[kk] = pos
    # children first, true child indices
    pointed = {}
    for pos, it in enumerate(its):
        ch = dag[it[0]]
        for side, got in ((0, it[2]), (1, it[3])):
            if side >= len(ch):
                if got is not None:
                    return ("child-index", "%s: item %d (node %d) reports a %s child index but has no such child"
                            % (what, pos, it[0], "left" if side == 0 else "right"))
                continue
            c = ch[side]
            if got is None:
                return ("child-index", "%s: item %d (node %d) has no %s index for its child %d"
                        % (what, pos, it[0], "left" if side == 0 else "right", c))
            if not (0 <= got < pos):
                return ("children-first", "%s: item %d (node %d): %s child index %d is not an earlier item"
                        % (what, pos, it[0], "left" if side == 0 else "right", got))
            tgt = its[got][0]
            if keys[c] is not None:
                if keys[tgt] != keys[c]:
                    return ("child-index", "%s: item %d (node %d): %s index %d is node %d, not the class of child %d"
                            % (what, pos, it[0], "left" if side == 0 else "right", got, tgt, c))
            else:
                if tgt != c:
                    return ("child-index", "%s: item %d (node %d): %s index %d is node %d, not child %d"
                            % (what, pos, it[0], "left" if side == 0 else "right", got, tgt, c))
                if got in pointed:
                    return ("keyless-occurrence", "%s: unshared occurrence %d of node %d is the child of two items"
                            % (what, got, c))
                pointed[got] = pos
    # no orphans: every item but the last (the root) is the child of a later item
    if key_acyclic(dag, root, keys):
        if not its or its[-1][0] != root:
            return ("root-last", "%s: the last item is not the root" % what)
        refd = set()
        for it in its:
            refd.update(x for x in (it[2], it[3]) if x is not None)
        for pos in range(n_items - 1):
            if pos not in refd:
                return ("orphan-items", "%s: item %d (node %d) is yielded but no yielded item refers to it"
                        % (what, pos, its[pos][0]))
    # the root's class is yielded; with congruent keys every reachable class is
    nodes = set(it[0] for it in its)
    need = reach if is_cong else {root}
    for x in need:
        if keys[x] is not None:
            if keys[x] not in seen:
                return ("missing", "%s: sharing class %d of reachable node %d is never yielded" % (what, keys[x], x))
        elif x not in nodes:
            return ("missing", "%s: reachable node %d (no sharing id) is never yielded" % (what, x))
    # order: exactly the recursive left-to-right (right-to-left) traversal
    ref, _ = ref_post(dag, root, keys, swap=rtl)
    if its != ref:
        j = next((i for i in range(min(len(ref), n_items)) if its[i] != ref[i]), min(len(ref), n_items))
        return ("order", "%s: differs from the recursive %s post-order at item %d: got %s expected %s"
                % (what, "right-to-left" if rtl else "left-to-right", j,
                   its[j] if j < n_items else None, ref[j] if j < len(ref) else None))
    return None


def check_keyed(dag, root, keys, md, secs, tag, is_cong):
    names = ("post_order_iter", "rtl_post_order_iter", "pre_order_iter", "verbose_pre_order_iter", "is_shared_as")
    for (st, _), nm in zip(secs, names):
        if st != 0:
            return ("panic", "%s%s panicked" % (tag, nm))
    post, rtl, pre, vpre, isa = [s[1] for s in secs]
    e = check_post(dag, root, keys, post, tag + "post_order_iter", is_cong)
    if e:
        return e
    # the right-to-left variant is the mirror image
    e = check_post(dag, root, keys, rtl, tag + "rtl_post_order_iter", is_cong, rtl=True)
    if e:
        return ("rtl-" + e[0], e[1])
    mref, _ = ref_post(mirror(dag), root, keys)
    munsw = [(nd, ix, (r if len(dag[nd]) == 2 else l), (l if len(dag[nd]) == 2 else r)) for (nd, ix, l, r) in mref]
    if [(nd, ix, dec(l), dec(r)) for (nd, ix, l, r) in rtl] != munsw:
        return ("rtl-mirror", "%srtl_post_order_iter is not the post-order of the mirrored DAG with child indices swapped back" % tag)
    # pre-order: same set, parent first
    pre = [p[0] for p in pre]
    if not pre or pre[0] != root:
        return ("pre-root", "%spre_order_iter does not start with the root" % tag)
    seenk = set()
    for pos, nd in enumerate(pre):
        if keys[nd] is not None:
            if keys[nd] in seenk:
                return ("pre-twice", "%spre_order_iter yields sharing class %d twice" % (tag, keys[nd]))
            seenk.add(keys[nd])
        if pos > 0 and not any(nd in dag[p] for p in pre[:pos]):
            return ("pre-parent", "%spre_order_iter yields node %d before any parent" % (tag, nd))
    # same set: for keys that never give a node the id of its own descendant (every structural
    # hash, pointer sharing, no sharing) pre-order yields exactly the nodes of the post-order
    if key_acyclic(dag, root, keys) and sorted(pre) != sorted(it[0] for it in post):
        return ("pre-set", "%spre_order_iter yields nodes %s, post-order yields %s"
                % (tag, sorted(pre), sorted(it[0] for it in post)))
    rpre, _ = ref_pre(dag, root, keys)
    if pre != rpre:
        return ("pre-order", "%spre_order_iter: got %s expected %s" % (tag, pre, rpre))
    # verbose pre-order
    vp = [(nd, dec(pa), ix, dp, ncy, bool(co)) for (nd, pa, ix, dp, ncy, co) in vpre]
    rv, _ = ref_vpre(dag, root, keys, md)
    if vp != rv:
        j = next((i for i in range(min(len(rv), len(vp))) if vp[i] != rv[i]), min(len(rv), len(vp)))
        return ("verbose", "%sverbose_pre_order_iter differs from its recursive specification at item %d: got %s expected %s"
                % (tag, j, vp[j] if j < len(vp) else None, rv[j] if j < len(rv) else None))
    if md is not None and any(v[3] > md for v in vp):
        return ("verbose-depth", "%sverbose_pre_order_iter yields an item deeper than max_depth" % tag)
    if md is None and [v[0] for v in vp if v[4] == 0] != pre:
        return ("verbose-first", "%sfirst yields of verbose_pre_order_iter are not the pre-order" % tag)
    # is_shared_as
    ptr, _ = ref_post(dag, root, list(range(len(dag))))
    a = [it[0] for it in ptr]
    b = [it[0] for it in post]
    m = min(len(a), len(b))
    if b and b[-1] == root:
        want = a == b          # the DAG's pointer structure is the requested sharing
    else:
        want = a[:m] == b[:m]  # (keys that give a node the id of one of its own descendants)
    if bool(isa) != want:
        return ("is_shared_as", "%sis_shared_as returned %s; pointer sequence %s, requested sharing yields %s"
                % (tag, bool(isa), a, b))
    if all(keys[x] is not None for x in reachable(dag, root)) and b and b[-1] == root:
        inj = len(set(keys[x] for x in reachable(dag, root))) == len(reachable(dag, root))
        if bool(isa) != inj:
            return ("is_shared_as", "%sis_shared_as returned %s but keys are %sinjective on the reachable nodes"
                    % (tag, bool(isa), "" if inj else "not "))
    return None


WIDTHS = (4, 4, 1, 6, 0)


def prop_check(c, r):
    m = c.meta
    if r in ("CRASH", "TIMEOUT") or r is None:
        return ("crash", "implementation crashed or hung on %s %s" % (c.kind, c.line))
    if not isinstance(r, list) or any(not isinstance(x, int) for x in r):
        return ("malformed", "unparsable harness output")
    dag, root, md = m["dag"], m["root"], m["md"]
    n = len(dag)
    if c.kind == "dag":
        p = parse_sections(r, WIDTHS)
        if p is None or p[1] != len(r):
            return ("malformed", "unparsable harness output")
        keys = m["keys"]
        return check_keyed(dag, root, keys, md, p[0], "", congruent(dag, root, keys))
    if c.kind in ("prog", "progs"):
        if r == [9]:
            return ("panic", "building the program panicked")
        if r and r[0] == 6:
            return ("convert", "finalize_types changed the pointer structure (%d vs %d nodes)" % (r[2], r[1]))
        pos = 0
        trackers = [("MaxSharing: ", m["skeys"]), ("InternalSharing: ", list(range(n)))]
        if c.kind == "prog":
            trackers.append(("NoSharing: ", [None] * n))
        for tag, keys in trackers:
            p = parse_sections(r[pos:], WIDTHS)
            if p is None:
                return ("malformed", "unparsable harness output")
            pos += p[1]
            e = check_keyed(dag, root, keys, md, p[0], tag, True)
            if e:
                return e
        if pos != len(r):
            return ("malformed", "unparsable harness output")
    return None


def nontrivial(c, r):
    """shape x tracker with at least one node reachable by two paths"""
    m = c.meta
    dag, root = m["dag"], m["root"]
    if tsizes(dag)[root] > len(reachable(dag, root)):
        return (c.kind, dag_str(dag), root, m.get("mode"), tuple(m.get("keys") or ()), m["md"])
    return None


def run(rep, tier, rng):
    vplib.proof_stage(rep, "Props/C18.v", extra_targets=["Dag/Run.vo"], translators=())
    rep.coverage["trusted_base"] = vplib.GENERIC_TRUSTED + [
        "model Dag/DagModel.v written by hand from src/dag.rs (PostOrderIter::next, SwapChildren/unswap, PreOrderIter, "
        "VerbosePreOrderIter, is_shared_as, trackers as key function + finite map)",
        "pointer identity (Arc / PointerId) is modelled as the position in a node table with children at smaller positions",
        "HashMap is modelled as an association list (only get / insert-if-vacant are used)",
        "is_shared_as: the model collects both iterators before zipping (equal to the alternating zip because neither panics)",
        "Rust harness crate /verif/harness_dag (table-backed DagLike, KeyedSharing tracker, real CommitNode programs for MaxSharing)",
    ]
    binary, out = vplib.harness_build("debug", crate=CRATE)
    if binary is None:
        raise vplib.Infra("harness build failed:\n" + out[-3000:])
    cases = gen_cases(rng, tier)
    skipped = LAST_SKIPPED
    # spread the expensive (large) cases over all model batches: round-robin order
    cases = [c for k in range(vplib.NCPU) for c in cases[k::vplib.NCPU]]
    nmodel = len([c for c in cases if c.expr is not None])
    impl, model = vplib.eval_cases(rep, binary, COMMAND, cases, IMPORTS, tag="c18",
                                   batch=max(250, min(1000, (nmodel + 15) // 16)), harness_timeout=150)
    for c in cases:     # digest cases: the model printed (length, hash) of its flat result
        if c.meta.get("digest") and c.cid in model and isinstance(impl.get(c.cid), list):
            if digest(impl[c.cid]) == model[c.cid]:
                model[c.cid] = impl[c.cid]
    pfail, mism = vplib.decide(rep, cases, impl, model, prop_check, None, nontrivial,
                               what="correspondence Dag/Run.v vs src/dag.rs")
    sizes = {}
    for c in cases:
        n = len(c.meta["dag"])
        b = "n<=4" if n <= 4 else "n=5" if n == 5 else "n=6" if n == 6 else "n<=24" if n <= 24 else "n<=60" if n <= 60 else "n>60"
        sizes[b] = sizes.get(b, 0) + 1
    rep.coverage["size_histogram"] = sizes
    rep.coverage["skipped_too_large"] = skipped
    rep.coverage["rule"] = ("all node tables with <= %d nodes (every arity, every choice of smaller child positions, root = last "
                            "node) x {NoSharing, InternalSharing, every keying incl. missing keys for <= 4 nodes, random keyings "
                            "beyond}; random tables up to %d nodes (diamonds, repeated children, child-and-grandchild, unary "
                            "chains, tree-like) x 5 trackers; real CommitNode programs through MaxSharing.  Distinct non-trivial = "
                            "distinct (table, root, tracker, max_depth) with at least one node reachable by two paths"
                            % (5 if tier == "quick" else 6, 60 if tier == "quick" else 400))
    rep.coverage["samples"] = [{"kind": c.kind, "args": c.line, "impl": impl.get(c.cid)}
                               for c in cases[::max(1, len(cases) // 5)][:6]]
    rep.assumptions += [
        "all theorems assume wfc children (children at smaller table positions = acyclic graph)",
        "root-last / no-orphans / pre-order = post-order nodes / is_shared_as_iff assume key_acyclic (no node carries the "
        "sharing id of its own proper descendant: true of NoSharing, InternalSharing and any hash of the structure below a "
        "node); C18_no_orphans_needs_acyclic and C18_is_shared_as_needs_acyclic show the hypothesis cannot be dropped",
        "coverage of every reachable class assumes key_congruent (equal ids => same arity, children equal or with equal "
        "ids); C18_coverage_needs_congruence shows it cannot be dropped (by design since /repo 7ce2109)",
        "prop_check applies the same conditions to harness-supplied key arrays (python key_acyclic / congruent)",
    ]
    vplib.finish_proof_verdict(rep, pfail)


def replay(obj):
    import json
    print(json.dumps(obj, indent=1))
    c = obj.get("case")
    if not c:
        return 0
    binary, _ = vplib.harness_build("debug", crate=CRATE)
    case = case_from_line(c["id"], c["kind"], c["harness_args"])
    rep = vplib.Report(PROP, "quick", 0)
    impl, model = vplib.eval_cases(rep, binary, COMMAND, [case], IMPORTS, tag="replay")
    print("implementation:", impl.get(case.cid))
    print("model         :", model.get(case.cid))
    print("property      :", prop_check(case, impl.get(case.cid)))
    return 0
