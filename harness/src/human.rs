//! C17 - the human-readable encoding (src/human_encoding): render / parse round trips.
//!
//! kinds (t[0]); `<fam>` is `c` (Core) or `e` (Elements):
//!
//!   classes <fam> <program 0|1> <pdl>
//!       -> `0 n (ihr_class cmr_class)*n`   per PDL node: class numbers (1.. by first occurrence in
//!          the table; ihr 0 = no identity hash (witness / disconnect below) ; 0 0 for hidden nodes)
//!       -> `1 <code>`                      the description does not commit (type error, ...)
//!
//!   prog <fam> <program 0|1> <pdl>
//!       PDL -> ConstructNode -> finalize_types -> Forest::from_program -> string_serialize
//!           -> Forest::parse -> compare
//!       -> `1 <code>`                      does not commit
//!       -> `0 <LINES> 8 <REPARSE> <NP>`
//!
//!   text <fam> <hex of UTF-8 source | ->
//!       source -> Forest::parse (guarded, timed) -> if single program: string_serialize -> parse -> compare
//!       -> `1 <nerr> <k> <code>*k <slow>`              parse error list (codes: see `err_code`)
//!       -> `9 <slow>`                                  parser panicked
//!       -> `0 6 <nroots> <has_main> <R> <slow>`        parsed, but not a single program (no `main` or
//!                                                      further roots); R = 0/1/9 second parse of the rendering
//!       -> `0 <LINES> 8 <REPARSE> <NP> <slow>`         single program
//!       (<slow> = 1 when the first parse took more than 3 s; never compared with the model)
//!
//!   typ <pdl type> <limit>
//!       a complete type (PDL type syntax `u` `s..` `p..` `w<d>`) -> `Final`'s Display with × replaced
//!       by * as string_serialize does -> tokens; then `t := witness : 1 -> <that text>` through
//!       Forest::parse and the target type of `t`.  limit > 0: Display writes into a sink that stops
//!       after <limit> bytes (2^(2^31): the text is complete after 13 bytes, the walk is not)
//!       -> `<ntok> <TOKENS> 8 <TYPE RESULT> <same>`    same = the parsed target has the TMR of the input
//!   tytext <hex of a type text>
//!       `t := witness : 1 -> <text>` through Forest::parse -> `<TYPE RESULT>`
//!       TOKENS      = `1` 1 | `2` 2 | `3 y` 2^y | `4` ? | `5` ( | `6` ) | `7` + | `8` * | `9` anything else
//!       TYPE RESULT = `0 <ty_nums of the target of t>` | `1 <code of the first error>` | `9` panic
//!   textcmr <fam> <hex of UTF-8 source> <program 0|1> <pdl>
//!       the root CMR of `main` of the parsed text against the CMR of the PDL program built through
//!       the construction API -> `0 <eq>` | `1 <nerr> <k> <code>*k` (text) | `2 <code>` (pdl) | `9`
//!   paths <fam> <hex of UTF-8 source>
//!       Forest::parse only; the error list with the names and counts of WitnessDisconnectRepeated
//!       -> `9` panic | `0 <nroots>` | `1 <k> <code>*k (77 <name> <count>)*` (pairs sorted; names must be of the
//!          canonical forms main / generated / hole_<n> / u<k>)
//!   fromok <fam> <program 0|1> <pdl>
//!       the facts behind theorem C17_from_program, observed on the objects:
//!       -> `1 <code>` does not commit
//!       -> `0 <closed> <nodes> <distinct> <paths_ok>`
//!          closed: every CommitNode with an identity hash is neither witness nor disconnect and all its
//!          operands have one; nodes: node objects of Forest::from_program's `main`; distinct: their names
//!          are pairwise distinct; paths_ok: every witness / disconnect name is reached from main by at most
//!          one path (counted top-down: paths_to[child] += paths_to[parent])
//!   rtext <fam> <program 0|1> <pdl>
//!       -> `1 <code>` does not commit | `0 <byte>*` the UTF-8 bytes of Forest::from_program(..).string_serialize()
//!          (tokenised by the driver with its own reader: kind linetok of the check)
//!   LINES   = one group per definition line of the rendered text, in text order:
//!             `7 <kind> <name> <operands>`
//!             kind: 0 iden 1 unit 2 injl 3 injr 4 take 5 drop 6 comp 7 case 8 pair 9 assertl
//!                   10 assertr 11 disconnect 12 witness 13 fail 14 jet 15 const
//!             name: `0` main | `1 <prefix> <index>` generated form (prefix codes: see PREFIXES)
//!                   | `2 <n>` the form `hole_<n>` | `3 <k>` the form `u<k>`
//!                   | `4 <k>` anything else, numbered by first occurrence in the text
//!                   | `5 <n>` the form `hole <n>` (with a space: not a symbol)
//!             operands: child names; assertl: child then 32 cmr bytes; assertr: 32 cmr bytes then child;
//!                   disconnect: child then hole name; fail: 64 bytes; jet: index in J::ALL;
//!                   const: n then the 2^n bits packed into bytes (big endian, zero padded)
//!             every group ends with one more number, the arrow feature: 0, or 1 = the printed arrow
//!             contains an option type `A?` (first), 2 = a word type above 2^512 (first), 3 = the line
//!             is `fail <entropy>` without the `0x` that the grammar wants
//!             `5` in place of a group: a line the minimal reader does not understand
//!   REPARSE = `0 <nroots> <has_main> <cmr_eq> <arrows_eq> <names_eq> <enc_eq> <text_eq>`   parse ok
//!           | `1 <nerr> <k> <code>*k`                                                       error list
//!           | `9`                                                                           panic
//!       cmr_eq: root commitment roots equal;  arrows_eq: both DAGs walked in post order (by object)
//!       have the same length and the same cmr and source/target type at every position;  names_eq: same
//!       names at every position;  enc_eq: program bytes equal (original CommitNode / NamedCommitNode vs
//!       the reparsed forest through to_witness_node + finalize_types, and its NamedCommitNode);
//!       text_eq: rendering the reparsed forest gives the same text again.
//!   NP      = 0: the rendered text parsed WITHOUT its type ascriptions has the same arrow at every node
//!             (the types of the program are the principal types of its rendered structure);
//!             1: same nodes and cmrs but another arrow somewhere;  2: not comparable
use crate::prog::*;
use crate::util::*;
use simplicity::dag::{DagLike, InternalSharing};
use simplicity::human_encoding::{Error as HErr, ErrorSet, Forest, NamedCommitNode};
use simplicity::jet::{Core, Elements, Jet};
use simplicity::types;
use simplicity::{CommitNode, ConstructNode};
use std::collections::HashMap;
use std::sync::Arc;
use std::time::Instant;

pub fn run(t: &[&str]) -> String {
    match guarded(|| run_inner(t)) {
        Some(v) => join(&v),
        None => "9".to_string(),
    }
}

pub const PREFIXES: [&str; 16] = [
    "id", "ut", "jl", "jr", "dp", "tk", "cp", "cs", "asstl", "asstr", "pr", "disc", "wit", "FAIL", "jt",
    "const",
];

fn all_digits(s: &str) -> bool {
    !s.is_empty() && s.bytes().all(|b| b.is_ascii_digit()) && (s == "0" || !s.starts_with('0')) && s.len() < 30
}

/// canonical numeric form of a name (see module documentation)
fn name_nums(s: &str, out: &mut Vec<u128>, others: &mut Vec<String>) {
    if s == "main" {
        out.push(0);
        return;
    }
    for (k, p) in PREFIXES.iter().enumerate() {
        if let Some(rest) = s.strip_prefix(p) {
            if all_digits(rest) {
                out.extend([1, k as u128, rest.parse::<u128>().unwrap()]);
                return;
            }
        }
    }
    if let Some(rest) = s.strip_prefix("hole_") {
        if all_digits(rest) {
            out.extend([2, rest.parse::<u128>().unwrap()]);
            return;
        }
    }
    // the form generated before the fix of `hole-name-space` (two tokens for the lexer)
    if let Some(rest) = s.strip_prefix("hole ") {
        if all_digits(rest) {
            out.extend([5, rest.parse::<u128>().unwrap()]);
            return;
        }
    }
    if let Some(rest) = s.strip_prefix('u') {
        if all_digits(rest) {
            out.extend([3, rest.parse::<u128>().unwrap()]);
            return;
        }
    }
    // any other name: numbered by first occurrence in this text
    let k = match others.iter().position(|x| x == s) {
        Some(k) => k,
        None => {
            others.push(s.to_string());
            others.len() - 1
        }
    };
    out.extend([4, k as u128]);
}

fn jet_index(fam: char, name: &str) -> Option<u128> {
    if fam == 'c' {
        Core::ALL.iter().position(|j| j.to_string() == name).map(|x| x as u128)
    } else {
        Elements::ALL.iter().position(|j| j.to_string() == name).map(|x| x as u128)
    }
}

fn hex_bytes(s: &str) -> Option<Vec<u128>> {
    if s.len() % 2 != 0 || !s.bytes().all(|b| b.is_ascii_hexdigit()) {
        return None;
    }
    Some((0..s.len() / 2).map(|i| u8::from_str_radix(&s[2 * i..2 * i + 2], 16).unwrap() as u128).collect())
}

/// `0x..` / `0b..` literal -> (n, packed bytes) when the length is 2^n bits
fn word_nums(lit: &str) -> Option<Vec<u128>> {
    let bits: Vec<bool> = if let Some(h) = lit.strip_prefix("0x") {
        let mut v = vec![];
        for c in h.chars() {
            let d = c.to_digit(16)?;
            for k in (0..4).rev() {
                v.push((d >> k) & 1 == 1);
            }
        }
        v
    } else if let Some(b) = lit.strip_prefix("0b") {
        b.chars().map(|c| c == '1').collect()
    } else {
        return None;
    };
    if bits.is_empty() || bits.len().count_ones() != 1 {
        return None;
    }
    let mut out = vec![bits.len().trailing_zeros() as u128];
    out.extend(pack_bits(&bits).into_iter().map(|b| b as u128));
    Some(out)
}

/// The definition lines of a rendered text in numeric form (minimal reader: one definition per
/// text line, comment lines start with `--`, the arrow follows the last ` : `).
fn text_lines(fam: char, text: &str) -> Vec<u128> {
    let mut out = vec![];
    let mut others: Vec<String> = vec![];
    for line in text.lines() {
        let line = line.trim();
        if line.is_empty() || line.starts_with("--") {
            continue;
        }
        match one_line(fam, line, &mut others) {
            Some(v) => {
                out.push(7);
                out.extend(v);
                out.push(if line.contains(" := fail ") && !line.contains(" := fail 0x") { 3 } else { arrow_feature(line) });
            }
            None => out.push(5),
        }
    }
    out
}

/// what the printed arrow of a line contains that the type grammar of the parser does not have:
/// 0 nothing, 1 an option type `A?` comes first, 2 a word type above 2^512 comes first
fn arrow_feature(line: &str) -> u128 {
    let arrow = match line.rfind(" : ") {
        Some(p) => &line[p + 3..],
        None => return 0,
    };
    let b = arrow.as_bytes();
    let mut i = 0;
    while i < b.len() {
        if b[i] == b'?' {
            return 1;
        }
        if b[i] == b'^' {
            let mut j = i + 1;
            let mut v: u128 = 0;
            while j < b.len() && b[j].is_ascii_digit() && j - i < 30 {
                v = v * 10 + (b[j] - b'0') as u128;
                j += 1;
            }
            if v > 512 {
                return 2;
            }
            i = j;
            continue;
        }
        i += 1;
    }
    0
}

fn one_line(fam: char, line: &str, others: &mut Vec<String>) -> Option<Vec<u128>> {
    let (name, rest) = line.split_once(" := ")?;
    // the arrow is printed after the expression as ": <src> -> <tgt>"; types contain no ':'
    let expr = match rest.rfind(" : ") {
        Some(p) => &rest[..p],
        None => rest,
    };
    let toks: Vec<&str> = expr.split_whitespace().collect();
    let kw = *toks.first()?;
    let mut out = vec![];
    let kind: u128 = match kw {
        "iden" => 0,
        "unit" => 1,
        "injl" => 2,
        "injr" => 3,
        "take" => 4,
        "drop" => 5,
        "comp" => 6,
        "case" => 7,
        "pair" => 8,
        "assertl" => 9,
        "assertr" => 10,
        "disconnect" => 11,
        "witness" => 12,
        "fail" => 13,
        "const" => 15,
        k if k.starts_with("jet_") => 14,
        _ => return None,
    };
    out.push(kind);
    name_nums(name.trim(), &mut out, others);
    let a = &toks[1..];
    match kind {
        0 | 1 | 12 => {
            if !a.is_empty() {
                return None;
            }
        }
        2..=5 => {
            if a.len() != 1 {
                return None;
            }
            name_nums(a[0], &mut out, others);
        }
        6..=8 => {
            if a.len() != 2 {
                return None;
            }
            name_nums(a[0], &mut out, others);
            name_nums(a[1], &mut out, others);
        }
        9 => {
            if a.len() != 2 {
                return None;
            }
            name_nums(a[0], &mut out, others);
            let h = hex_bytes(a[1].strip_prefix('#')?)?;
            if h.len() != 32 {
                return None;
            }
            out.extend(h);
        }
        10 => {
            if a.len() != 2 {
                return None;
            }
            let h = hex_bytes(a[0].strip_prefix('#')?)?;
            if h.len() != 32 {
                return None;
            }
            out.extend(h);
            name_nums(a[1], &mut out, others);
        }
        11 => {
            if a.len() < 2 {
                return None;
            }
            name_nums(a[0], &mut out, others);
            let hole = a[1..].join(" ");
            name_nums(hole.strip_prefix('?')?, &mut out, others);
        }
        13 => {
            if a.len() != 1 {
                return None;
            }
            // as printed (bare hex) or as the grammar wants it (0x...)
            let h = hex_bytes(a[0].strip_prefix("0x").unwrap_or(a[0]))?;
            if h.len() != 64 {
                return None;
            }
            out.extend(h);
        }
        14 => {
            if !a.is_empty() {
                return None;
            }
            out.push(jet_index(fam, &kw[4..])?);
        }
        15 => {
            if a.len() != 1 {
                return None;
            }
            out.extend(word_nums(a[0])?);
        }
        _ => unreachable!(),
    }
    Some(out)
}

pub fn err_code(e: &HErr) -> u128 {
    match e {
        HErr::Bad2ExpNumber(..) => 1,
        HErr::BadWordLength { .. } => 2,
        HErr::EntropyInsufficient { .. } => 3,
        HErr::EntropyTooMuch { .. } => 4,
        HErr::HoleAtCommitTime { .. } => 5,
        HErr::HoleFilledAtCommitTime => 6,
        HErr::NameIllegal(..) => 7,
        HErr::NameIncomplete(..) => 8,
        HErr::NameMissing(..) => 9,
        HErr::NameRepeated(..) => 10,
        HErr::NoMain => 11,
        HErr::ParseFailed(..) => 12,
        HErr::LexFailed(..) => 13,
        HErr::NumberOutOfRange(..) => 14,
        HErr::TypeCheck(..) => 15,
        HErr::Undefined(..) => 16,
        HErr::UnknownJet(..) => 17,
        HErr::WitnessDisconnectRepeated { .. } => 18,
        #[allow(unreachable_patterns)]
        _ => 19,
    }
}

fn err_nums(e: &ErrorSet) -> Vec<u128> {
    let mut codes: Vec<u128> = e.iter().map(err_code).collect();
    codes.sort();
    codes.dedup();
    let mut out = vec![1, e.len() as u128, codes.len() as u128];
    out.extend(codes);
    out
}

/// post-order walk (by object identity) of a named DAG: (cmr, source, target, name) per position
fn walk(n: &NamedCommitNode) -> Vec<(simplicity::Cmr, simplicity::Tmr, simplicity::Tmr, Arc<str>)> {
    n.post_order_iter::<InternalSharing>()
        .map(|d| {
            (
                d.node.cmr(),
                d.node.arrow().source.tmr(),
                d.node.arrow().target.tmr(),
                Arc::clone(d.node.name()),
            )
        })
        .collect()
}

/// program bytes of the forest's `main` through the public route used to build programs from text
fn forest_encoding(f: &Forest) -> Option<Vec<u8>> {
    types::Context::with_context(|ctx| {
        let c: Arc<ConstructNode> = f.to_witness_node(&ctx, &HashMap::new())?;
        let commit = c.finalize_types_non_program().ok()?;
        Some(commit.to_vec_without_witness())
    })
}

/// The rendered text without its type ascriptions (the arrow follows the last ` : ` of a
/// definition line).
fn strip_ascriptions(text: &str) -> String {
    let mut out = String::new();
    for line in text.lines() {
        let t = line.trim_start();
        if !t.starts_with("--") && line.contains(" := ") {
            match line.rfind(" : ") {
                Some(p) => out.push_str(&line[..p]),
                None => out.push_str(line),
            }
        } else {
            out.push_str(line);
        }
        out.push('\n');
    }
    out
}

/// NP flag: are the types of the program the principal types of its rendered structure?
/// 0 = parsing the rendering WITHOUT ascriptions infers the same arrow at every node;
/// 1 = it infers another arrow somewhere (same nodes, same cmrs);  2 = not comparable.
fn non_principal<J: Jet>(text: &str, orig: &Forest) -> u128 {
    let stripped = strip_ascriptions(text);
    let parsed = match guarded(|| Forest::parse::<J>(&stripped)) {
        Some(Ok(f)) => f,
        _ => return 2,
    };
    match (orig.roots().get("main"), parsed.roots().get("main")) {
        (Some(a), Some(b)) => {
            let wa = walk(a);
            let wb = walk(b);
            if wa.len() != wb.len() || !wa.iter().zip(&wb).all(|(x, y)| x.0 == y.0) {
                return 2;
            }
            if wa.iter().zip(&wb).all(|(x, y)| x.1 == y.1 && x.2 == y.2) {
                0
            } else {
                1
            }
        }
        _ => 2,
    }
}

/// REPARSE group: parse `text` again and compare with the forest it was rendered from
fn reparse<J: Jet>(text: &str, orig: &Forest, orig_enc: &[Vec<u8>]) -> Vec<u128> {
    let parsed = match guarded(|| Forest::parse::<J>(text)) {
        None => return vec![9],
        Some(Err(e)) => return err_nums(&e),
        Some(Ok(f)) => f,
    };
    let m1 = orig.roots().get("main");
    let m2 = parsed.roots().get("main");
    let mut out = vec![0, parsed.roots().len() as u128, m2.is_some() as u128];
    match (m1, m2) {
        (Some(a), Some(b)) => {
            let wa = walk(a);
            let wb = walk(b);
            let arrows_eq =
                wa.len() == wb.len() && wa.iter().zip(&wb).all(|(x, y)| x.0 == y.0 && x.1 == y.1 && x.2 == y.2);
            let names_eq = wa.len() == wb.len() && wa.iter().zip(&wb).all(|(x, y)| x.3 == y.3);
            let mut encs: Vec<Vec<u8>> = vec![b.to_vec_without_witness(), b.to_commit_node().to_vec_without_witness()];
            let enc_eq = match forest_encoding(&parsed) {
                Some(e) => {
                    encs.push(e);
                    encs.iter().all(|x| orig_enc.iter().all(|y| x == y))
                }
                None => false,
            };
            let text_eq = guarded(|| parsed.string_serialize()).map(|t2| t2 == text).unwrap_or(false);
            out.extend([
                (a.cmr() == b.cmr()) as u128,
                arrows_eq as u128,
                names_eq as u128,
                enc_eq as u128,
                text_eq as u128,
            ]);
        }
        _ => out.extend([0, 0, 0, 0, 0]),
    }
    out
}

fn commit_of(specs: &[NodeSpec], program: bool) -> Result<Arc<CommitNode>, RedeemError> {
    types::Context::with_context(|ctx| {
        let nodes = build(&ctx, specs, &|_| None).map_err(RedeemError::Build)?;
        let root = nodes.last().unwrap().as_ref().ok_or(RedeemError::Build(BuildError::Shape(0, "hidden root")))?;
        if program {
            root.finalize_types().map_err(|e| RedeemError::Infer(err_class(&e)))
        } else {
            root.finalize_types_non_program().map_err(|e| RedeemError::Infer(err_class(&e)))
        }
    })
}

fn prog_case<J: Jet>(fam: char, program: bool, pdl: &str) -> Vec<u128> {
    let specs = parse_prog(pdl);
    let commit = match commit_of(&specs, program) {
        Ok(c) => c,
        Err(e) => return vec![1, err_code_prog(&e)],
    };
    let forest = Forest::from_program(Arc::clone(&commit));
    let text = forest.string_serialize();
    let mut out = vec![0];
    out.extend(text_lines(fam, &text));
    out.push(8);
    let main = forest.roots().get("main").expect("from_program has main");
    let encs = vec![
        commit.to_vec_without_witness(),
        main.to_vec_without_witness(),
        main.to_commit_node().to_vec_without_witness(),
    ];
    out.extend(reparse::<J>(&text, &forest, &encs));
    out.push(non_principal::<J>(&text, &forest));
    out
}

fn err_code_prog(e: &RedeemError) -> u128 {
    crate::prog::err_code(e)
}

fn classes_case(program: bool, pdl: &str) -> Vec<u128> {
    let specs = parse_prog(pdl);
    let r: Result<Vec<u128>, RedeemError> = types::Context::with_context(|ctx| {
        let nodes = build(&ctx, &specs, &|_| None).map_err(RedeemError::Build)?;
        let root = nodes.last().unwrap().as_ref().ok_or(RedeemError::Build(BuildError::Shape(0, "hidden root")))?;
        // the whole program first: this fixes every type variable
        if program {
            root.finalize_types().map_err(|e| RedeemError::Infer(err_class(&e)))?;
        } else {
            root.finalize_types_non_program().map_err(|e| RedeemError::Infer(err_class(&e)))?;
        }
        let mut ihrs: Vec<simplicity::Ihr> = vec![];
        let mut cmrs: Vec<simplicity::Cmr> = vec![];
        let mut out = vec![0, nodes.len() as u128];
        for n in &nodes {
            match n {
                None => out.extend([0, 0]),
                Some(n) => {
                    let c = n.finalize_types_non_program().map_err(|e| RedeemError::Infer(err_class(&e)))?;
                    let ic = match c.ihr() {
                        None => 0,
                        Some(h) => match ihrs.iter().position(|x| *x == h) {
                            Some(p) => p + 1,
                            None => {
                                ihrs.push(h);
                                ihrs.len()
                            }
                        },
                    };
                    let cm = c.cmr();
                    let cc = match cmrs.iter().position(|x| *x == cm) {
                        Some(p) => p + 1,
                        None => {
                            cmrs.push(cm);
                            cmrs.len()
                        }
                    };
                    out.extend([ic as u128, cc as u128]);
                }
            }
        }
        Ok(out)
    });
    match r {
        Ok(v) => v,
        Err(e) => vec![1, err_code_prog(&e)],
    }
}

fn text_case<J: Jet>(fam: char, src: &str) -> Vec<u128> {
    let t0 = Instant::now();
    let first = guarded(|| Forest::parse::<J>(src));
    let slow = (t0.elapsed().as_millis() > 3000) as u128;
    let forest = match first {
        None => return vec![9, slow],
        Some(Err(e)) => {
            let mut out = err_nums(&e);
            out.push(slow);
            return out;
        }
        Some(Ok(f)) => f,
    };
    let nroots = forest.roots().len();
    let main = forest.roots().get("main");
    let mut out = vec![0];
    if nroots != 1 || main.is_none() {
        // not a single program: out of the property's scope; still render and parse once more
        let r = match guarded(|| forest.string_serialize()) {
            None => 9,
            Some(text) => match guarded(|| Forest::parse::<J>(&text)) {
                None => 9,
                Some(Err(_)) => 1,
                Some(Ok(_)) => 0,
            },
        };
        out.extend([6, nroots as u128, main.is_some() as u128, r, slow]);
        return out;
    }
    let main = main.unwrap();
    let text = forest.string_serialize();
    out.extend(text_lines(fam, &text));
    out.push(8);
    let mut encs = vec![main.to_vec_without_witness(), main.to_commit_node().to_vec_without_witness()];
    if let Some(e) = forest_encoding(&forest) {
        encs.push(e);
    }
    out.extend(reparse::<J>(&text, &forest, &encs));
    out.push(non_principal::<J>(&text, &forest));
    out.push(slow);
    out
}

/// tokens of a printed type (independent reader; see module documentation)
fn type_tokens(text: &str) -> Vec<u128> {
    let b: Vec<char> = text.chars().collect();
    let mut out = vec![];
    let mut n = 0u128;
    let mut i = 0;
    while i < b.len() {
        let c = b[i];
        i += 1;
        match c {
            ' ' => continue,
            '1' => out.push(1),
            '2' => {
                if i < b.len() && b[i] == '^' {
                    // the lexer rule: 2^ then a nonzero digit then digits
                    let mut j = i + 1;
                    let mut v: u128 = 0;
                    while j < b.len() && b[j].is_ascii_digit() && j - i < 30 {
                        v = v * 10 + b[j].to_digit(10).unwrap() as u128;
                        j += 1;
                    }
                    if j > i + 1 && b[i + 1] != '0' {
                        out.extend([3, v]);
                        i = j;
                    } else {
                        out.push(9);
                        // the rest of the lexeme
                        i += 1;
                        while i < b.len() && (b[i] == '-' || b[i].is_ascii_digit()) {
                            i += 1;
                        }
                    }
                } else {
                    out.push(2);
                }
            }
            '?' => out.push(4),
            '(' => out.push(5),
            ')' => out.push(6),
            '+' => out.push(7),
            '*' => out.push(8),
            _ => out.push(9),
        }
        n += 1;
    }
    let mut r = vec![n];
    r.extend(out);
    r
}

/// Display into a buffer that refuses to grow beyond `limit` bytes (0 = no limit)
struct LimitedSink {
    buf: String,
    limit: usize,
}

impl std::fmt::Write for LimitedSink {
    fn write_str(&mut self, s: &str) -> std::fmt::Result {
        self.buf.push_str(s);
        if self.limit > 0 && self.buf.len() >= self.limit {
            Err(std::fmt::Error)
        } else {
            Ok(())
        }
    }
}

/// `t := witness : 1 -> <text>`: the target type of `t` as the parser read it
fn parsed_target(text: &str) -> (Vec<u128>, Option<simplicity::Tmr>) {
    let src = format!("t := witness : 1 -> {}", text);
    match guarded(|| Forest::parse::<Core>(&src)) {
        None => (vec![9], None),
        Some(Err(e)) => (vec![1, e.iter().next().map(err_code).unwrap_or(0)], None),
        Some(Ok(f)) => match f.roots().get("t") {
            Some(t) => {
                let mut v = vec![0];
                let tgt = &t.arrow().target;
                ty_nums(tgt, &mut v);
                (v, Some(tgt.tmr()))
            }
            None => (vec![1, 0], None),
        },
    }
}

fn typ_case(pdl_ty: &str, limit: usize) -> Vec<u128> {
    use std::fmt::Write;
    let fin = parse_ty(pdl_ty);
    let mut sink = LimitedSink { buf: String::new(), limit };
    let _ = write!(sink, "{}", fin);
    let shown = sink.buf.replace('×', "*");
    let mut out = type_tokens(&shown);
    out.push(8);
    let (res, tmr) = parsed_target(&shown);
    out.extend(res);
    out.push((tmr == Some(fin.tmr())) as u128);
    out
}

fn textcmr_case<J: Jet>(src: &str, program: bool, pdl: &str) -> Vec<u128> {
    let forest = match guarded(|| Forest::parse::<J>(src)) {
        None => return vec![9],
        Some(Err(e)) => return err_nums(&e),
        Some(Ok(f)) => f,
    };
    let main = match forest.roots().get("main") {
        Some(m) => m,
        None => return vec![1, 0, 0],
    };
    let specs = parse_prog(pdl);
    match commit_of(&specs, program) {
        Ok(c) => vec![0, (c.cmr() == main.cmr()) as u128],
        Err(e) => vec![2, err_code_prog(&e)],
    }
}

fn paths_case<J: Jet>(src: &str) -> Vec<u128> {
    match guarded(|| Forest::parse::<J>(src)) {
        None => vec![9],
        Some(Ok(f)) => vec![0, f.roots().len() as u128],
        Some(Err(e)) => {
            let mut codes: Vec<u128> = e.iter().map(err_code).collect();
            codes.sort();
            codes.dedup();
            let mut out = vec![1, codes.len() as u128];
            out.extend(codes);
            let mut groups: Vec<Vec<u128>> = vec![];
            let mut others = vec![];
            for er in e.iter() {
                if let HErr::WitnessDisconnectRepeated { name, count } = er {
                    let mut g = vec![77];
                    name_nums(name, &mut g, &mut others);
                    g.push(*count as u128);
                    groups.push(g);
                }
            }
            groups.sort();
            for g in groups {
                out.extend(g);
            }
            out
        }
    }
}

fn fromok_case(program: bool, pdl: &str) -> Vec<u128> {
    let specs = parse_prog(pdl);
    let commit = match commit_of(&specs, program) {
        Ok(c) => c,
        Err(e) => return vec![1, err_code_prog(&e)],
    };
    // identity hashes as CommitData::imr assigns them
    let mut has: Vec<bool> = vec![];
    let mut closed = true;
    for data in commit.as_ref().post_order_iter::<InternalSharing>() {
        let own = data.node.ihr().is_some();
        if own {
            if matches!(data.node.inner(), simplicity::node::Inner::Witness(..) | simplicity::node::Inner::Disconnect(..)) {
                closed = false;
            }
            for idx in [data.left_index, data.right_index].into_iter().flatten() {
                if !has[idx] {
                    closed = false;
                }
            }
        }
        has.push(own);
    }
    let forest = Forest::from_program(Arc::clone(&commit));
    let main = forest.roots().get("main").expect("from_program has main");
    let mut names: Vec<Arc<str>> = vec![];
    let mut counted: Vec<bool> = vec![];
    let mut kids: Vec<Vec<usize>> = vec![];
    for data in main.as_ref().post_order_iter::<InternalSharing>() {
        names.push(Arc::clone(data.node.name()));
        counted.push(matches!(data.node.inner(), simplicity::node::Inner::Witness(..) | simplicity::node::Inner::Disconnect(..)));
        kids.push([data.left_index, data.right_index].into_iter().flatten().collect());
    }
    let n = names.len();
    let mut sorted = names.clone();
    sorted.sort();
    sorted.dedup();
    let distinct = sorted.len() == n;
    let mut paths_to: Vec<u128> = vec![0; n];
    paths_to[n - 1] = 1;
    for i in (0..n).rev() {
        for &c in &kids[i] {
            paths_to[c] = paths_to[c].saturating_add(paths_to[i]);
        }
    }
    let mut per_name: HashMap<Arc<str>, u128> = HashMap::new();
    for i in 0..n {
        if counted[i] {
            let e = per_name.entry(Arc::clone(&names[i])).or_insert(0);
            *e = e.saturating_add(paths_to[i]);
        }
    }
    let paths_ok = per_name.values().all(|c| *c <= 1);
    vec![0, closed as u128, n as u128, distinct as u128, paths_ok as u128]
}

fn run_inner(t: &[&str]) -> Vec<u128> {
    match t[0] {
        "typ" => return typ_case(t[1], t.get(2).map(|x| x.parse().unwrap()).unwrap_or(0)),
        "tytext" => {
            let bytes = unhex(t[1]);
            return parsed_target(&String::from_utf8_lossy(&bytes)).0;
        }
        _ => {}
    }
    let fam = t[1].chars().next().unwrap();
    match t[0] {
        "textcmr" => {
            let bytes = unhex(t[2]);
            let src = String::from_utf8_lossy(&bytes).to_string();
            if fam == 'c' {
                textcmr_case::<Core>(&src, t[3] == "1", t[4])
            } else {
                textcmr_case::<Elements>(&src, t[3] == "1", t[4])
            }
        }
        "classes" => classes_case(t[2] == "1", t[3]),
        "fromok" => fromok_case(t[2] == "1", t[3]),
        "rtext" | "linetok" => {
            let specs = parse_prog(t[3]);
            match commit_of(&specs, t[2] == "1") {
                Ok(c) => {
                    let text = Forest::from_program(c).string_serialize();
                    let mut out = vec![0];
                    out.extend(text.bytes().map(|b| b as u128));
                    out
                }
                Err(e) => vec![1, err_code_prog(&e)],
            }
        }
        "paths" => {
            let bytes = unhex(t[2]);
            let src = String::from_utf8_lossy(&bytes).to_string();
            if fam == 'c' {
                paths_case::<Core>(&src)
            } else {
                paths_case::<Elements>(&src)
            }
        }
        "prog" => {
            if fam == 'c' {
                prog_case::<Core>(fam, t[2] == "1", t[3])
            } else {
                prog_case::<Elements>(fam, t[2] == "1", t[3])
            }
        }
        "text" => {
            let bytes = unhex(t[2]);
            let src = String::from_utf8_lossy(&bytes).to_string();
            if fam == 'c' {
                text_case::<Core>(fam, &src)
            } else {
                text_case::<Elements>(fam, &src)
            }
        }
        // `repeat <fam> <hex> <n>`: parse the same text n times; prints the number of distinct outcomes
        // (ok / sorted error codes) and, for each, how often it occurred
        "repeat" => {
            let bytes = unhex(t[2]);
            let src = String::from_utf8_lossy(&bytes).to_string();
            let n: usize = t[3].parse().unwrap();
            let mut seen: Vec<(Vec<u128>, u128)> = vec![];
            for _ in 0..n {
                let r = if fam == 'c' { Forest::parse::<Core>(&src) } else { Forest::parse::<Elements>(&src) };
                let key: Vec<u128> = match r {
                    Ok(f) => {
                        let mut names: Vec<String> = f.roots().keys().map(|k| k.to_string()).collect();
                        names.sort();
                        let mut v = vec![0, names.len() as u128];
                        if let Some(m) = f.roots().get("main") {
                            v.extend(m.cmr().as_ref().iter().take(4).map(|b| *b as u128));
                        }
                        v
                    }
                    Err(e) => {
                        let mut v = err_nums(&e);
                        v.remove(1);
                        v
                    }
                };
                match seen.iter_mut().find(|(k, _)| *k == key) {
                    Some(x) => x.1 += 1,
                    None => seen.push((key, 1)),
                }
            }
            seen.sort();
            let mut out = vec![seen.len() as u128];
            for (k, c) in seen {
                out.push(77);
                out.push(c);
                out.extend(k);
            }
            out
        }
        // debugging aid (not used by the check): stage timings on stderr
        "time" => {
            let bytes = unhex(t[2]);
            let src = String::from_utf8_lossy(&bytes).to_string();
            let t0 = Instant::now();
            let f = Forest::parse::<Core>(&src);
            eprintln!("parse {} ms ok={}", t0.elapsed().as_millis(), f.is_ok());
            if let Ok(f) = f {
                let t1 = Instant::now();
                let text = f.string_serialize();
                eprintln!("render {} ms, {} bytes", t1.elapsed().as_millis(), text.len());
                let t2 = Instant::now();
                let g = Forest::parse::<Core>(&text);
                eprintln!("reparse {} ms ok={}", t2.elapsed().as_millis(), g.is_ok());
                let t3 = Instant::now();
                let e = forest_encoding(&f);
                eprintln!("encode {} ms {:?}", t3.elapsed().as_millis(), e.map(|x| x.len()));
            }
            vec![0]
        }
        // debugging aid (not used by the check): prints the rendered text on stderr
        "show" => {
            let bytes = unhex(t[2]);
            let src = String::from_utf8_lossy(&bytes).to_string();
            let res = if fam == 'c' { Forest::parse::<Core>(&src) } else { Forest::parse::<Elements>(&src) };
            match res {
                Ok(f) => eprintln!("{}", f.string_serialize()),
                Err(e) => eprintln!("{}", e),
            }
            vec![0]
        }
        "showprog" => {
            let specs = parse_prog(t[3]);
            match commit_of(&specs, t[2] == "1") {
                Ok(c) => {
                    let text = Forest::from_program(c).string_serialize();
                    eprintln!("{}", text);
                    match Forest::parse::<Elements>(&text) {
                        Ok(f) => eprintln!("reparse ok, roots {:?}", f.roots().keys().collect::<Vec<_>>()),
                        Err(e) => eprintln!("reparse errors:\n{}", e),
                    }
                }
                Err(e) => eprintln!("{:?}", e),
            }
            vec![0]
        }
        _ => panic!("kind"),
    }
}
