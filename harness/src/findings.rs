//! Replays of the findings recorded in /verif/known_findings.json against the implementation.
//! Each kind prints a short numeric verdict; 1 in the first position = the property holds on the witness.
use crate::util::*;

use simplicity::node::{CoreConstructible, WitnessConstructible};
use simplicity::policy::Policy;
use simplicity::types;
use simplicity::{BitMachine, ConstructNode, Value, Word};
use std::collections::hash_map::DefaultHasher;
use std::hash::{Hash, Hasher};
use std::sync::Arc;

fn h(v: &Value) -> u64 {
    let mut s = DefaultHasher::new();
    v.hash(&mut s);
    s.finish()
}

pub fn run(t: &[&str]) -> String {
    match guarded(|| run_inner(t)) {
        Some(v) => join(&v),
        None => "9".to_string(),
    }
}

fn run_inner(t: &[&str]) -> Vec<u128> {
    match t[0] {
        // F-C11: sub-value extracted from a shared buffer vs the same value built directly
        "c11" => {
            let p = Value::product(Value::u4(0xA), Value::u4(0xB));
            let (l, _r) = p.as_ref().as_product().unwrap();
            let l = l.to_value();
            let d = Value::u4(0xA);
            vec![
                (l == d) as u128,
                (h(&l) == h(&d)) as u128,
                (l.cmp(&d) == std::cmp::Ordering::Equal) as u128,
            ]
        }
        // F-C12: witness of the wrong type attached at construction time
        "c12" => types::Context::with_context(|ctx| {
            // wit : 1 -> 2^8 forced by composing with `take`-free consumer: pair(wit, unit) ; comp with (take iden) : 2^8*1 -> 2^8
            let wit = Arc::<ConstructNode>::witness(&ctx, Some(Value::u16(0x1234)));
            let w8 = Arc::<ConstructNode>::const_word(&ctx, Word::u8(7));
            // case on a bit: both branches must have equal target type => wit : 1 -> 2^8
            let unit = || Arc::<ConstructNode>::unit(&ctx);
            let l = Arc::<ConstructNode>::comp(&unit(), &wit).unwrap();
            let r = Arc::<ConstructNode>::comp(&unit(), &w8).unwrap();
            let case = Arc::<ConstructNode>::case(&l, &r).unwrap();
            let bit = Arc::<ConstructNode>::const_word(&ctx, Word::u1(0));
            let inp = Arc::<ConstructNode>::pair(&bit, &unit()).unwrap();
            let prog = Arc::<ConstructNode>::comp(&inp, &case).unwrap();
            let prog = Arc::<ConstructNode>::comp(&prog, &unit()).unwrap();
            match prog.finalize_unpruned() {
                Err(_) => vec![1, 0],
                Ok(redeem) => {
                    let mut ok = true;
                    for n in simplicity::dag::DagLike::post_order_iter::<simplicity::dag::InternalSharing>(redeem.as_ref()) {
                        if let simplicity::node::Inner::Witness(v) = n.node.inner() {
                            if !v.is_of_type(&n.node.arrow().target) {
                                ok = false;
                            }
                        }
                    }
                    vec![ok as u128, 1]
                }
            }
        }),
        // F-C16: sorting must not depend on the order of nested children
        "c16" => {
            let a: Policy<simplicity::bitcoin::key::XOnlyPublicKey> = Policy::And {
                left: Arc::new(Policy::Or {
                    left: Arc::new(Policy::After(1)),
                    right: Arc::new(Policy::After(2)),
                }),
                right: Arc::new(Policy::After(3)),
            };
            let b: Policy<simplicity::bitcoin::key::XOnlyPublicKey> = Policy::And {
                left: Arc::new(Policy::Or {
                    left: Arc::new(Policy::After(2)),
                    right: Arc::new(Policy::After(1)),
                }),
                right: Arc::new(Policy::After(3)),
            };
            vec![(a.sorted() == b.sorted()) as u128]
        }
        // F-C07: widths saturated at usize::MAX make the cell bound wrap
        "c07" => types::Context::with_context(|ctx| {
            let depth: usize = t.get(1).map(|s| s.parse().unwrap()).unwrap_or(70);
            let mut bomb = Arc::<ConstructNode>::const_word(&ctx, Word::u8(0));
            for _ in 0..depth {
                bomb = Arc::<ConstructNode>::pair(&bomb, &bomb).unwrap();
            }
            let injl = Arc::<ConstructNode>::injl(&Arc::<ConstructNode>::unit(&ctx));
            let inner = Arc::<ConstructNode>::comp(&injl, &Arc::<ConstructNode>::unit(&ctx)).unwrap();
            let prog = Arc::<ConstructNode>::comp(&bomb, &inner).unwrap();
            let redeem = match guarded(|| prog.finalize_unpruned()) {
                None => return vec![0, 1], // panicked while computing bounds
                Some(Err(_)) => return vec![1, 2],
                Some(Ok(r)) => r,
            };
            match BitMachine::for_program(&redeem) {
                Err(_) => vec![1, 3], // refused: the property's second clause
                Ok(mut mac) => {
                    let env = simplicity::jet::CoreEnv::new();
                    match guarded(|| mac.exec(&redeem, &env).is_ok()) {
                        None => vec![0, 4], // out-of-bounds panic during execution
                        Some(_) => vec![1, 5],
                    }
                }
            }
        }),
        // F-C17: rendered text must parse again to the same program
        "c17" => {
            use simplicity::human_encoding::Forest;
            use simplicity::jet::Core;
            let srcs = [
                "main := comp (pair unit unit) unit",
                "a := unit\nb := unit\nmain := comp a b",
            ];
            let mut out = vec![];
            for src in srcs {
                let f = Forest::parse::<Core>(src).expect("source parses");
                let text = f.string_serialize();
                let ok = match Forest::parse::<Core>(&text) {
                    Ok(f2) => f2.roots().get("main").map(|m| m.cmr()) == f.roots().get("main").map(|m| m.cmr()),
                    Err(_) => false,
                };
                out.push(ok as u128);
            }
            out
        }
        _ => panic!("kind"),
    }
}
