//! C16: policies.  Case kinds (t[0]):
//!   jets                                   cost / source width / target width of the jets used by policies
//!   key <i>      | hash <j>                x-only key of secret i / sha256 image of preimage [j;32]
//!   pol <tokens>                           roots, sorted(), idempotence
//!   norm <tokens>                          normalized()
//!   perm <n> <tokens p> <tokens q>         sorted(p) == sorted(q), both dumps
//!   sat <n> <tokens> <locktime> <sequence> <after_max> <older_max> <keymask> <premask>
//!   lib <locktime> <sequence> <n_after> <n_older>   the tuple satisfiers of satisfy.rs and the two lock jets
//!
//! Policy tokens (prefix form): U<e> T K<i> A<n> O<n> H<j> & | #<k>:<n>
//! Dump of a policy (prefix): 0 e | 1 | 2 keyrank | 3 n | 4 n | 5 imagerank | 6 l r | 7 l r | 8 k n subs..
//! Keys and images are printed as ranks in the implementation's own `Ord` (keys 1..8, images 101..108).
use crate::util::*;

use simplicity::dag::{DagLike, NoSharing};
use simplicity::elements;
use simplicity::elements::bitcoin::hashes::{sha256, Hash};
use simplicity::elements::bitcoin::key::XOnlyPublicKey;
use simplicity::elements::secp256k1_zkp as secp;
use simplicity::elements::taproot::ControlBlock;
use simplicity::jet::elements::{ElementsEnv, ElementsUtxo};
use simplicity::jet::{Elements, Jet};
use simplicity::node::{Inner, SimpleFinalizer};
use simplicity::policy::{Policy, Preimage32, Satisfier, SatisfierError};
use simplicity::types;
use simplicity::BitCollector;
use simplicity::{BitMachine, Cmr, Cost, FailEntropy, RedeemNode, Value};
use std::collections::HashMap;
use std::sync::Arc;

type Pol = Policy<XOnlyPublicKey>;
type Env = ElementsEnv<Arc<elements::Transaction>>;

pub fn run(t: &[&str]) -> String {
    match guarded(|| run_inner(t)) {
        Some(v) => join(&v),
        None => "9".to_string(),
    }
}

// ---------------------------------------------------------------------------------- keys and hashes
fn keypair(i: u64) -> secp::Keypair {
    let ctx = secp::Secp256k1::new();
    let mut sk = [0u8; 32];
    sk[24..].copy_from_slice(&i.to_be_bytes());
    secp::Keypair::from_seckey_slice(&ctx, &sk).expect("secret key")
}

fn xonly(i: u64) -> XOnlyPublicKey {
    keypair(i).x_only_public_key().0
}

fn preimage(j: u64) -> Preimage32 {
    [j as u8; 32]
}

fn image(j: u64) -> sha256::Hash {
    sha256::Hash::hash(&preimage(j))
}

/// rank (1-based) of key i among the NKEYS keys in the order of the implementation's `Ord`
fn key_ranks() -> &'static Vec<(XOnlyPublicKey, u128)> {
    static T: std::sync::OnceLock<Vec<(XOnlyPublicKey, u128)>> = std::sync::OnceLock::new();
    T.get_or_init(|| {
        let mut v: Vec<XOnlyPublicKey> = (1..=NKEYS).map(xonly).collect();
        v.sort();
        v.into_iter().enumerate().map(|(i, k)| (k, i as u128 + 1)).collect()
    })
}

/// 100 + rank (1-based) of image j among the NKEYS images in the order of the implementation's `Ord`
fn image_ranks() -> &'static Vec<(sha256::Hash, u128)> {
    static T: std::sync::OnceLock<Vec<(sha256::Hash, u128)>> = std::sync::OnceLock::new();
    T.get_or_init(|| {
        let mut v: Vec<sha256::Hash> = (1..=NKEYS).map(image).collect();
        v.sort();
        v.into_iter().enumerate().map(|(i, k)| (k, i as u128 + 101)).collect()
    })
}

fn key_rank(k: &XOnlyPublicKey) -> u128 {
    key_ranks().iter().find(|(x, _)| x == k).map(|(_, r)| *r).unwrap_or(0)
}

fn image_rank(h: &sha256::Hash) -> u128 {
    image_ranks().iter().find(|(x, _)| x == h).map(|(_, r)| *r).unwrap_or(0)
}

/// a 256-bit word: the rank of the key or image it is, 0 if neither
fn word_rank(b: &[u8]) -> u128 {
    if let Ok(k) = XOnlyPublicKey::from_slice(b) {
        let r = key_rank(&k);
        if r != 0 {
            return r;
        }
    }
    let mut a = [0u8; 32];
    a.copy_from_slice(b);
    image_rank(&sha256::Hash::from_byte_array(a))
}

fn limbs(b: &[u8]) -> [u128; 2] {
    assert_eq!(b.len(), 32);
    let mut hi = [0u8; 16];
    let mut lo = [0u8; 16];
    hi.copy_from_slice(&b[..16]);
    lo.copy_from_slice(&b[16..]);
    [u128::from_be_bytes(hi), u128::from_be_bytes(lo)]
}

fn entropy(e: u64) -> FailEntropy {
    let mut b = [0u8; 64];
    b[56..].copy_from_slice(&e.to_be_bytes());
    FailEntropy::from_byte_array(b)
}

// ---------------------------------------------------------------------------------- policies
fn parse(toks: &[&str], pos: &mut usize) -> Pol {
    let tk = toks[*pos];
    *pos += 1;
    let (c, rest) = tk.split_at(1);
    match c {
        "U" => Policy::Unsatisfiable(entropy(rest.parse().unwrap())),
        "T" => Policy::Trivial,
        "K" => Policy::Key(xonly(rest.parse().unwrap())),
        "A" => Policy::After(rest.parse().unwrap()),
        "O" => Policy::Older(rest.parse().unwrap()),
        "H" => Policy::Sha256(image(rest.parse().unwrap())),
        "&" => {
            let l = parse(toks, pos);
            let r = parse(toks, pos);
            Policy::And { left: Arc::new(l), right: Arc::new(r) }
        }
        "|" => {
            let l = parse(toks, pos);
            let r = parse(toks, pos);
            Policy::Or { left: Arc::new(l), right: Arc::new(r) }
        }
        "#" => {
            let mut it = rest.split(':');
            let k: usize = it.next().unwrap().parse().unwrap();
            let n: usize = it.next().unwrap().parse().unwrap();
            let subs = (0..n).map(|_| parse(toks, pos)).collect();
            Policy::Threshold(k, subs)
        }
        _ => panic!("token"),
    }
}

fn dump(p: &Pol, out: &mut Vec<u128>) {
    match p {
        Policy::Unsatisfiable(e) => {
            let b = e.to_byte_array();
            // only the low 16 bytes are ever set by this harness; the rest must be zero
            assert!(b[..48].iter().all(|x| *x == 0));
            let mut lo = [0u8; 16];
            lo.copy_from_slice(&b[48..]);
            out.push(0);
            out.push(u128::from_be_bytes(lo));
        }
        Policy::Trivial => out.push(1),
        Policy::Key(k) => {
            out.push(2);
            out.push(key_rank(k));
        }
        Policy::After(n) => {
            out.push(3);
            out.push(*n as u128);
        }
        Policy::Older(n) => {
            out.push(4);
            out.push(*n as u128);
        }
        Policy::Sha256(h) => {
            out.push(5);
            out.push(image_rank(h));
        }
        Policy::And { left, right } => {
            out.push(6);
            dump(left, out);
            dump(right, out);
        }
        Policy::Or { left, right } => {
            out.push(7);
            dump(left, out);
            dump(right, out);
        }
        Policy::Threshold(k, subs) => {
            out.push(8);
            out.push(*k as u128);
            out.push(subs.len() as u128);
            for s in subs {
                dump(s, out);
            }
        }
    }
}

// ---------------------------------------------------------------------------------- environment
fn make_env(lock_time: u32, sequence: u32) -> Env {
    let ctrl_blk: [u8; 33] = [
        0xc0, 0xeb, 0x04, 0xb6, 0x8e, 0x9a, 0x26, 0xd1, 0x16, 0x04, 0x6c, 0x76, 0xe8, 0xff, 0x47, 0x33, 0x2f,
        0xb7, 0x1d, 0xda, 0x90, 0xff, 0x4b, 0xef, 0x53, 0x70, 0xf2, 0x52, 0x26, 0xd3, 0xbc, 0x09, 0xfc,
    ];
    ElementsEnv::new(
        Arc::new(elements::Transaction {
            version: 2,
            lock_time: elements::LockTime::from_consensus(lock_time),
            input: vec![elements::TxIn {
                previous_output: elements::OutPoint::default(),
                is_pegin: false,
                script_sig: elements::Script::new(),
                sequence: elements::Sequence::from_consensus(sequence),
                asset_issuance: elements::AssetIssuance::default(),
                witness: elements::TxInWitness::default(),
            }],
            output: Vec::default(),
        }),
        vec![ElementsUtxo {
            script_pubkey: elements::Script::new(),
            asset: elements::confidential::Asset::Null,
            value: elements::confidential::Value::Null,
        }],
        0,
        Cmr::from_byte_array([0; 32]),
        ControlBlock::from_slice(&ctrl_blk).unwrap(),
        None,
        elements::BlockHash::from_byte_array([0u8; 32]),
    )
}

// ---------------------------------------------------------------------------------- satisfier
struct Sat<'brand> {
    ctx: types::Context<'brand>,
    sigs: HashMap<XOnlyPublicKey, elements::SchnorrSig>,
    pres: HashMap<sha256::Hash, Preimage32>,
    after_max: u32,
    older_max: u16,
}

impl<'brand> Satisfier<'brand, XOnlyPublicKey> for Sat<'brand> {
    fn inference_context(&self) -> &types::Context<'brand> {
        &self.ctx
    }
    fn lookup_signature(&self, pk: &XOnlyPublicKey) -> Option<elements::SchnorrSig> {
        self.sigs.get(pk).copied()
    }
    fn lookup_sha256(&self, h: &sha256::Hash) -> Option<Preimage32> {
        self.pres.get(h).copied()
    }
    fn check_older(&self, s: elements::Sequence) -> bool {
        // the policy asks with Sequence(n), n: u16
        s.0 <= u32::from(self.older_max)
    }
    fn check_after(&self, l: elements::LockTime) -> bool {
        match l {
            elements::LockTime::Blocks(h) => h.to_consensus_u32() <= self.after_max,
            _ => false,
        }
    }
}

const NKEYS: u64 = 8;

fn sign(i: u64, env: &Env) -> elements::SchnorrSig {
    let ctx = secp::Secp256k1::new();
    let sighash = env.c_tx_env().sighash_all();
    let msg = secp::Message::from_digest(sighash.to_byte_array());
    elements::SchnorrSig {
        sig: ctx.sign_schnorr_no_aux_rand(&msg, &keypair(i)),
        hash_ty: elements::SchnorrSighashType::All,
    }
}

// ---------------------------------------------------------------------------------- program dumps
fn jet_code(j: &dyn Jet) -> u128 {
    match j.as_any().downcast_ref::<Elements>() {
        Some(Elements::SigAllHash) => 0,
        Some(Elements::Bip0340Verify) => 1,
        Some(Elements::CheckLockHeight) => 2,
        Some(Elements::BrokenDoNotUseCheckLockDistance) => 3,
        Some(Elements::Sha256Ctx8Init) => 4,
        Some(Elements::Sha256Ctx8Add32) => 5,
        Some(Elements::Sha256Ctx8Finalize) => 6,
        Some(Elements::Verify) => 7,
        Some(Elements::Eq256) => 8,
        Some(Elements::Eq32) => 9,
        Some(Elements::Add32) => 10,
        _ => 99,
    }
}

const JETS: [Elements; 11] = [
    Elements::SigAllHash,
    Elements::Bip0340Verify,
    Elements::CheckLockHeight,
    Elements::BrokenDoNotUseCheckLockDistance,
    Elements::Sha256Ctx8Init,
    Elements::Sha256Ctx8Add32,
    Elements::Sha256Ctx8Finalize,
    Elements::Verify,
    Elements::Eq256,
    Elements::Eq32,
    Elements::Add32,
];

fn value_bytes(v: &Value) -> Vec<u8> {
    v.iter_padded().try_collect_bytes().expect("whole bytes")
}

/// witness values in post-order (no sharing): bit -> 1 b; signature -> 2 key; preimage -> 3 image; other -> 4
fn dump_witnesses(prog: &RedeemNode, sigs: &HashMap<Vec<u8>, XOnlyPublicKey>, out: &mut Vec<u128>) {
    let mut w = vec![];
    let mut n = 0u128;
    for item in prog.post_order_iter::<NoSharing>() {
        if let Inner::Witness(v) = item.node.inner() {
            n += 1;
            let bits = item.node.arrow().target.bit_width();
            if bits == 1 {
                w.push(1);
                w.push(v.iter_padded().next().unwrap() as u128);
            } else if bits == 512 {
                let b = value_bytes(v);
                match sigs.get(&b) {
                    Some(k) => {
                        w.push(2);
                        w.push(key_rank(k));
                    }
                    None => w.push(4),
                }
            } else if bits == 256 {
                let b = value_bytes(v);
                w.push(3);
                w.push(image_rank(&sha256::Hash::hash(&b)));
            } else {
                w.push(4);
            }
        }
    }
    out.push(n);
    out.extend(w);
}

/// structure in post-order (no sharing)
fn dump_structure(prog: &RedeemNode, out: &mut Vec<u128>) {
    let mut s = vec![];
    let mut n = 0u128;
    for item in prog.post_order_iter::<NoSharing>() {
        n += 1;
        match item.node.inner() {
            Inner::Iden => s.push(0),
            Inner::Unit => s.push(1),
            Inner::InjL(..) => s.push(2),
            Inner::InjR(..) => s.push(3),
            Inner::Take(..) => s.push(4),
            Inner::Drop(..) => s.push(5),
            Inner::Comp(..) => s.push(6),
            Inner::Case(..) => s.push(7),
            Inner::AssertL(..) => s.push(8),
            Inner::AssertR(..) => s.push(9),
            Inner::Pair(..) => s.push(10),
            Inner::Disconnect(..) => s.push(11),
            Inner::Witness(..) => s.push(12),
            Inner::Fail(..) => s.push(13),
            Inner::Jet(j) => {
                s.push(14);
                s.push(jet_code(j.as_ref()));
            }
            Inner::Word(w) => {
                s.push(15);
                s.push(w.len() as u128);
                let bytes = value_bytes(w.as_value());
                if bytes.len() == 32 {
                    s.push(word_rank(&bytes));
                } else {
                    let mut v = 0u128;
                    for b in bytes {
                        v = (v << 8) | b as u128;
                    }
                    s.push(v);
                }
            }
        }
    }
    out.push(n);
    out.extend(s);
}

fn exec_ok(prog: &RedeemNode, env: &Env) -> bool {
    match BitMachine::for_program(prog) {
        Err(_) => false,
        Ok(mut mac) => match mac.exec(prog, env) {
            Ok(v) => v == Value::unit(),
            Err(_) => false,
        },
    }
}

/// does the one-leaf policy run in this environment (no witnesses)?
fn leaf_runs(p: &Pol, env: &Env) -> bool {
    let commit = p.commit();
    let prog = commit
        .finalize(&mut SimpleFinalizer::new(std::iter::empty()))
        .expect("finalize");
    exec_ok(&prog, env)
}

fn u(s: &str) -> u64 {
    s.parse().expect("number")
}

fn run_inner(t: &[&str]) -> Vec<u128> {
    match t[0] {
        "jets" => {
            let mut out = vec![Cost::CONSENSUS_MAX.to_string().parse::<u128>().unwrap()];
            for j in JETS.iter() {
                out.push(j.cost().to_string().parse::<u128>().unwrap());
                out.push(j.source_ty().to_final().bit_width() as u128);
                out.push(j.target_ty().to_final().bit_width() as u128);
            }
            out
        }
        "key" => limbs(&xonly(u(t[1])).serialize()).to_vec(),
        "hash" => limbs(&image(u(t[1])).to_byte_array()).to_vec(),
        "pol" => {
            let mut pos = 1;
            let p = parse(t, &mut pos);
            assert_eq!(pos, t.len());
            let mut out = vec![];
            // roots: a panic of the compiler is a result of its own
            match guarded(|| (p.cmr(), p.commit().cmr())) {
                None => out.push(9),
                Some((a, b)) => out.push((a == b) as u128),
            }
            let s = p.clone().sorted();
            out.push((s.clone().sorted() == s) as u128);
            dump(&s, &mut out);
            out
        }
        "norm" => {
            let mut pos = 1;
            let p = parse(t, &mut pos);
            assert_eq!(pos, t.len());
            let mut out = vec![];
            dump(&p.normalized(), &mut out);
            out
        }
        "perm" => {
            let n = u(t[1]) as usize;
            let mut pos = 2;
            let p = parse(t, &mut pos);
            assert_eq!(pos, 2 + n);
            let q = parse(t, &mut pos);
            assert_eq!(pos, t.len());
            let sp = p.sorted();
            let sq = q.sorted();
            let mut out = vec![(sp == sq) as u128];
            dump(&sp, &mut out);
            dump(&sq, &mut out);
            out
        }
        "sat" => {
            let n = u(t[1]) as usize;
            let mut pos = 2;
            let p = parse(t, &mut pos);
            assert_eq!(pos, 2 + n);
            let lock_time = u(t[pos]) as u32;
            let sequence = u(t[pos + 1]) as u32;
            let after_max = u(t[pos + 2]) as u32;
            let older_max = u(t[pos + 3]) as u16;
            let keymask = u(t[pos + 4]);
            let premask = u(t[pos + 5]);
            let env = make_env(lock_time, sequence);
            let mut sigs = HashMap::new();
            let mut sig_owner = HashMap::new();
            for i in 1..=NKEYS {
                let s = sign(i, &env);
                sig_owner.insert(s.sig.as_ref().to_vec(), xonly(i));
                if keymask >> i & 1 == 1 {
                    sigs.insert(xonly(i), s);
                }
            }
            let mut pres = HashMap::new();
            for j in 1..=NKEYS {
                if premask >> j & 1 == 1 {
                    pres.insert(image(j), preimage(j));
                }
            }
            let mut out = vec![];
            let roots = guarded(|| (p.cmr(), p.commit().cmr()));
            match roots {
                None => out.push(9),
                Some((a, b)) => out.push((a == b) as u128),
            }
            let res = guarded(|| {
                types::Context::with_context(|ctx| {
                    let sat = Sat { ctx, sigs, pres, after_max, older_max };
                    p.satisfy(&sat, &env)
                })
            });
            match res {
                None => out.push(9),
                Some(Err(SatisfierError::Unsatisfiable)) => out.push(0),
                Some(Err(SatisfierError::AssemblyFailed(_))) => out.push(2),
                Some(Ok(prog)) => {
                    out.push(1);
                    out.push(match roots {
                        Some((a, _)) => (prog.cmr() == a) as u128,
                        None => 9,
                    });
                    out.push(exec_ok(&prog, &env) as u128);
                    out.push(prog.bounds().cost.to_string().parse::<u128>().unwrap());
                    dump_witnesses(&prog, &sig_owner, &mut out);
                    dump_structure(&prog, &mut out);
                }
            }
            out
        }
        "lib" => {
            let lock_time = u(t[1]) as u32;
            let sequence = u(t[2]) as u32;
            let n_after = u(t[3]) as u32;
            let n_older = u(t[4]) as u16;
            let env = make_env(lock_time, sequence);
            types::Context::with_context(|ctx| {
                let h = elements::locktime::Height::from_consensus(n_after).expect("height");
                let a = Satisfier::<XOnlyPublicKey>::check_after(
                    &(&ctx, elements::LockTime::from_consensus(lock_time)),
                    elements::LockTime::Blocks(h),
                );
                let o = Satisfier::<XOnlyPublicKey>::check_older(
                    &(&ctx, elements::Sequence::from_consensus(sequence)),
                    elements::Sequence(n_older.into()),
                );
                vec![
                    a as u128,
                    o as u128,
                    leaf_runs(&Policy::After(n_after), &env) as u128,
                    leaf_runs(&Policy::Older(n_older), &env) as u128,
                ]
            })
        }
        _ => panic!("kind"),
    }
}
