//! Command `core`: the Bit Machine on programs in PDL (see prog.rs).
//!
//! kinds:
//!   info <0|1 program> <pdl>
//!       -> 0, per node (4 <src nums> <tgt nums> | 5), then for every disconnect node with a right
//!          branch: 8 <index of the right child> <32 cmr bytes>;   or 1 <error code>
//!   jetcosts
//!       -> for every Core jet in table order: its cost in milliweight
//!   exec <0|1 program> <pdl> <input>
//!       input: `-` (BitMachine::input is not called) or `<type>:<padded bits|->`
//!       (the value is built with Value::from_padded_bits, so padding bits may be dirty)
//!       -> 3 <code>                                      the program could not be built/finalised
//!          2 sw tw ec ef cost kind got max which         for_program returned a LimitError
//!          0 sw tw ec ef cost capcells capframes 1 V     otherwise (1 = well typed), with V one of
//!              0 hwc hwf <n> <compact bits> <m> <padded bits>     Ok(value)
//!              1 hwc hwf 1 <32 bytes>                              ReachedPrunedBranch
//!              1 hwc hwf 2 <64 bytes>                              ReachedFailNode
//!              1 hwc hwf 3                                         JetFailed
//!              1 hwc hwf 4                                         InputWrongType
//!              1 hwc hwf 5                                         other error
//!              9                                                   panic
//!   execv <0|1 program> <pdl> <input>
//!       the same run observed at the level of `Value` (buffer bytes, bit offset, type): input is `-` or
//!       `<padtype>:<pad bits|->:<type>:<padded bits|->`; the input Value is the right component of a Value of
//!       type padtype * type decoded from the concatenated bits (so it sits at bit offset |padtype| of a shared
//!       buffer; padtype `u` = no product, offset 0)
//!       -> as exec, with V for Ok:  0 hwc hwf <in off> <n> <in bytes> <out off> <m> <out bytes> <type = target type> <type = unit>
//!          (in off / n = 0 0 when input is `-`); the other verdicts as for exec
//!   limits <0|1 program> <pdl>    the same up to and including capframes (exec is not called)
//!   sw/tw: bit widths of the root arrow; ec/ef/cost: root NodeBounds; capcells = 8 * data.len(),
//!   capframes = read.capacity(); hwc/hwf: high-water marks of the verif-hooks feature.
use crate::prog::*;
use crate::util::*;
use simplicity::jet::{Core, CoreEnv, Jet};
use simplicity::types;
use simplicity::{BitIter, BitMachine, Value};

pub fn run(t: &[&str]) -> String {
    match guarded(|| run_inner(t)) {
        Some(v) => join(&v),
        None => "9".to_string(),
    }
}

/// raw buffer bytes and raw bit offset, parsed from the Debug form of Value
fn raw_of(v: &Value) -> (Vec<u128>, u128) {
    let d = format!("{:?}", v);
    let i = d.rfind("raw_value: [").expect("raw_value field") + "raw_value: [".len();
    let j = i + d[i..].find(']').expect("]");
    let bytes: Vec<u128> = d[i..j]
        .split(',')
        .map(|s| s.trim())
        .filter(|s| !s.is_empty())
        .map(|s| s.parse().expect("byte"))
        .collect();
    let k = d.rfind("raw_bit_offset: ").expect("raw_bit_offset field") + "raw_bit_offset: ".len();
    let off: String = d[k..].chars().take_while(|c| c.is_ascii_digit()).collect();
    (bytes, off.parse().expect("offset"))
}

fn limit_which(s: &str) -> u128 {
    match s {
        "source type width" => 0,
        "target type width" => 1,
        "extra cells" => 2,
        "source + target type widths" => 3,
        "source + target type widths + extra cells" => 4,
        "extra frames" => 5,
        "extra frames + fixed overhead" => 6,
        _ => 99,
    }
}

fn run_inner(t: &[&str]) -> Vec<u128> {
    match t[0] {
        "info" => {
            let program = t[1] == "1";
            let specs = parse_prog(t[2]);
            let arr = match arrows(&specs, program) {
                Ok(a) => a,
                Err(e) => return vec![1, err_code(&e)],
            };
            let mut out = vec![0];
            for x in arr {
                match x {
                    None => out.push(5),
                    Some((s, tg)) => {
                        out.push(4);
                        ty_nums(&s, &mut out);
                        ty_nums(&tg, &mut out);
                    }
                }
            }
            // CMRs of the right children of disconnect nodes
            let cm: Vec<(usize, Vec<u8>)> = types::Context::with_context(|ctx| {
                let nodes = match build(&ctx, &specs, &|_| None) {
                    Ok(n) => n,
                    Err(_) => return vec![],
                };
                let mut v = vec![];
                for s in specs.iter() {
                    if let NodeSpec::Disconnect(_, Some(r)) = s {
                        if let Some(n) = &nodes[*r] {
                            v.push((*r, n.cmr().as_ref().to_vec()));
                        }
                    }
                }
                v
            });
            for (i, c) in cm {
                out.push(8);
                out.push(i as u128);
                out.extend(c.iter().map(|b| *b as u128));
            }
            out
        }
        "jetcosts" => Core::ALL
            .iter()
            .map(|j| format!("{}", j.cost()).parse::<u128>().expect("cost"))
            .collect(),
        "exec" | "limits" | "execv" => {
            let only_limits = t[0] == "limits";
            let value_level = t[0] == "execv";
            let program = t[1] == "1";
            let specs = parse_prog(t[2]);
            let redeem = match redeem(&specs, program) {
                Ok(r) => r,
                Err(e) => return vec![3, err_code(&e)],
            };
            let b = redeem.bounds();
            let cost: u128 = format!("{}", b.cost).parse().expect("cost");
            let sw = redeem.arrow().source.bit_width() as u128;
            let tw = redeem.arrow().target.bit_width() as u128;
            let head = vec![sw, tw, b.extra_cells as u128, b.extra_frames as u128, cost];
            let mut mac = match BitMachine::for_program(&redeem) {
                Ok(m) => m,
                Err(e) => {
                    let mut out = vec![2];
                    out.extend(head);
                    match e {
                        simplicity::bit_machine::LimitError::MaxCellsExceeded { got, max, bound } => {
                            out.extend([0, got as u128, max as u128, limit_which(bound)]);
                        }
                        simplicity::bit_machine::LimitError::MaxFramesExceeded { got, max, bound } => {
                            out.extend([1, got as u128, max as u128, limit_which(bound)]);
                        }
                        #[allow(unreachable_patterns)]
                        _ => out.push(99),
                    }
                    return out;
                }
            };
            let (_, (capc, capf)) = mac.verif_high_water();
            let mut out = vec![0];
            out.extend(head);
            out.push(capc as u128);
            out.push(capf as u128);
            if only_limits {
                return out;
            }
            // the program was finalised, i.e. well typed for the implementation
            out.push(1);
            let env = CoreEnv::new();
            let inp = t[3].to_string();
            let mut in_raw: (Vec<u128>, u128) = (vec![], 0);
            let res = guarded(|| {
                if inp != "-" && value_level {
                    let f: Vec<&str> = inp.split(':').collect();
                    assert!(f.len() == 4, "input syntax");
                    let padty = parse_ty(f[0]);
                    let ty = parse_ty(f[2]);
                    let mut bits = bits_of_str(f[1]);
                    bits.extend(bits_of_str(f[3]));
                    let bytes = pack_bits(&bits);
                    let mut it = BitIter::from(bytes.into_iter());
                    let v = if f[0] == "u" {
                        Value::from_padded_bits(&mut it, &ty).expect("input bits")
                    } else {
                        let pty = types::Final::product(padty, ty);
                        let whole = Value::from_padded_bits(&mut it, &pty).expect("input bits");
                        let (_, r) = whole.as_product().expect("product");
                        r.to_value()
                    };
                    in_raw = raw_of(&v);
                    mac.input(&v)?;
                } else if inp != "-" {
                    let (tys, bits) = inp.split_once(':').expect("input syntax");
                    let ty = parse_ty(tys);
                    let bits = bits_of_str(bits);
                    let bytes = pack_bits(&bits);
                    let mut it = BitIter::from(bytes.into_iter());
                    let v = Value::from_padded_bits(&mut it, &ty).expect("input bits");
                    mac.input(&v)?;
                }
                mac.exec(&redeem, &env)
            });
            let ((hwc, hwf), _) = mac.verif_high_water();
            match res {
                None => out.push(9),
                Some(Ok(v)) if value_level => {
                    out.extend([0, hwc as u128, hwf as u128]);
                    out.push(in_raw.1);
                    out.push(in_raw.0.len() as u128);
                    out.extend(in_raw.0.iter());
                    let (bytes, off) = raw_of(&v);
                    out.push(off);
                    out.push(bytes.len() as u128);
                    out.extend(bytes);
                    out.push(v.is_of_type(&redeem.arrow().target) as u128);
                    out.push(v.is_of_type(&types::Final::unit()) as u128);
                }
                Some(Ok(v)) => {
                    out.extend([0, hwc as u128, hwf as u128]);
                    let c = compact_bits(&v);
                    out.push(c.len() as u128);
                    out.extend(c);
                    let p = padded_bits(&v);
                    out.push(p.len() as u128);
                    out.extend(p);
                }
                Some(Err(e)) => {
                    out.extend([1, hwc as u128, hwf as u128]);
                    use simplicity::bit_machine::ExecutionError as E;
                    match e {
                        E::ReachedPrunedBranch(c) => {
                            out.push(1);
                            out.extend(c.as_ref().iter().map(|b| *b as u128));
                        }
                        E::ReachedFailNode(f) => {
                            out.push(2);
                            out.extend(f.as_ref().iter().map(|b| *b as u128));
                        }
                        E::JetFailed(_) => out.push(3),
                        E::InputWrongType(_) => out.push(4),
                        _ => out.push(5),
                    }
                }
            }
            out
        }
        _ => panic!("kind"),
    }
}
