(* Facts about the specifications of Jets/JetSpecSecp.v: the field operations are the arithmetic of
   the integers modulo p = 2^256 - 2^32 - 977 on canonical representatives, results stay below p. *)
From Coq Require Import String.
From RS Require Import Lib.Tac Lib.Outcome Lib.Bits Ty.Ty Core.Prog Core.Term Core.Typing Core.Sem
  Jets.JetSpec Jets.JetSpecSha Jets.JetSpecSecp.
Import ListNotations.
Local Open Scope N_scope.

Lemma P256_pow : 2 ^ 256 = P256. Proof. vm_compute. reflexivity. Qed.
Lemma M256_ones : M256 = N.ones 256. Proof. vm_compute. reflexivity. Qed.
Lemma FE_P_val : FE_P = P256 - FE_C. Proof. vm_compute. reflexivity. Qed.
Lemma FE_P_num : FE_P = 115792089237316195423570985008687907853269984665640564039457584007908834671663.
Proof. vm_compute. reflexivity. Qed.

Lemma fold1_eq x : fold1 x = x mod P256 + FE_C * (x / P256).
Proof.
  unfold fold1. rewrite M256_ones, N.land_ones, N.shiftr_div_pow2, P256_pow. reflexivity.
Qed.

Lemma fold1_cong x : fold1 x mod FE_P = x mod FE_P.
Proof.
  rewrite fold1_eq.
  assert (x = x mod P256 + FE_C * (x / P256) + (x / P256) * FE_P) as E.
  { rewrite FE_P_val. unfold P256, FE_C. lia. }
  rewrite E at 3. rewrite N.mod_add by (rewrite FE_P_num; discriminate). reflexivity.
Qed.

Lemma csub_spec x : x < 2 * FE_P -> csub x = x mod FE_P.
Proof.
  intros H. unfold csub. rewrite FE_P_num in *.
  destruct (N.leb_spec 115792089237316195423570985008687907853269984665640564039457584007908834671663 x); lia.
Qed.

Lemma csub_lt x : x < 2 * FE_P -> csub x < FE_P.
Proof. intros H. rewrite csub_spec by assumption. apply N.mod_lt. rewrite FE_P_num. discriminate. Qed.

Theorem red_spec x : x < P256 * P256 -> red x = x mod FE_P.
Proof.
  intros H. unfold red.
  assert (fold1 (fold1 x) < 2 * FE_P) as B.
  { rewrite (fold1_eq (fold1 x)). rewrite (fold1_eq x). rewrite FE_P_num. unfold P256, FE_C in *. lia. }
  rewrite csub_spec by exact B. rewrite !fold1_cong. reflexivity.
Qed.

Lemma FE_P_lt_P256 : FE_P < P256. Proof. vm_compute. reflexivity. Qed.

Lemma mul_lt_P256 a b : a < FE_P -> b < FE_P -> a * b < P256 * P256.
Proof.
  intros Ha Hb. pose proof FE_P_lt_P256.
  apply N.mul_lt_mono; lia.
Qed.

Theorem fmul_spec a b : a < FE_P -> b < FE_P -> fmul a b = (a * b) mod FE_P.
Proof. intros. unfold fmul. apply red_spec. apply mul_lt_P256; assumption. Qed.

Theorem fsqr_spec a : a < FE_P -> fsqr a = (a * a) mod FE_P.
Proof. intros. unfold fsqr. apply red_spec. apply mul_lt_P256; assumption. Qed.

Theorem fadd_spec a b : a < FE_P -> b < FE_P -> fadd a b = (a + b) mod FE_P.
Proof. intros. unfold fadd. apply csub_spec. lia. Qed.

Theorem fneg_spec a : a < FE_P -> fneg a = (FE_P - a) mod FE_P.
Proof.
  intros H. unfold fneg. destruct (N.eqb_spec a 0) as [->|Hn].
  - rewrite N.sub_0_r, N.mod_same by (rewrite FE_P_num; discriminate). reflexivity.
  - rewrite N.mod_small by lia. reflexivity.
Qed.

(* a + (-a) = 0 modulo p *)
Theorem fneg_inverse a : a < FE_P -> fadd a (fneg a) = 0.
Proof.
  intros H. unfold fadd, fneg, csub. destruct (N.eqb_spec a 0) as [->|Hn].
  - reflexivity.
  - replace (a + (FE_P - a)) with FE_P by lia. rewrite N.leb_refl. lia.
Qed.

(* halving: the result doubles back to the argument *)
Theorem fhalf_spec a : a < FE_P -> fhalf a < FE_P /\ (2 * fhalf a) mod FE_P = a.
Proof.
  intros H. unfold fhalf. rewrite FE_P_num in *.
  destruct (N.odd a) eqn:E.
  - apply N.odd_spec in E. destruct E as [k ->].
    set (p := 115792089237316195423570985008687907853269984665640564039457584007908834671663) in *.
    assert (p = 2 * 57896044618658097711785492504343953926634992332820282019728792003954417335831 + 1) as Ep by reflexivity.
    split.
    + lia.
    + replace (2 * ((2 * k + 1 + p) / 2)) with (2 * k + 1 + 1 * p) by lia.
      rewrite N.mod_add by (subst p; discriminate). apply N.mod_small. lia.
  - assert (N.even a = true) as Ev by (rewrite <- N.negb_odd, E; reflexivity).
    apply N.even_spec in Ev. destruct Ev as [k ->].
    split; [lia|]. replace (2 * (2 * k / 2)) with (2 * k) by lia. apply N.mod_small. lia.
Qed.

(* ---- every operation returns a canonical representative *)
Lemma FE_P_pos : FE_P <> 0. Proof. rewrite FE_P_num. discriminate. Qed.
Lemma red_lt x : x < P256 * P256 -> red x < FE_P.
Proof. intros. rewrite red_spec by assumption. apply N.mod_lt, FE_P_pos. Qed.
Lemma fmul_lt a b : a < FE_P -> b < FE_P -> fmul a b < FE_P.
Proof. intros. rewrite fmul_spec by assumption. apply N.mod_lt, FE_P_pos. Qed.
Lemma fsqr_lt a : a < FE_P -> fsqr a < FE_P.
Proof. intros. rewrite fsqr_spec by assumption. apply N.mod_lt, FE_P_pos. Qed.
Lemma fadd_lt a b : a < FE_P -> b < FE_P -> fadd a b < FE_P.
Proof. intros. rewrite fadd_spec by assumption. apply N.mod_lt, FE_P_pos. Qed.
Lemma fneg_lt a : a < FE_P -> fneg a < FE_P.
Proof. intros. rewrite fneg_spec by assumption. apply N.mod_lt, FE_P_pos. Qed.
Lemma fsub_lt a b : a < FE_P -> b < FE_P -> fsub a b < FE_P.
Proof. intros. apply fadd_lt; [assumption|apply fneg_lt; assumption]. Qed.
Lemma fhalf_lt a : a < FE_P -> fhalf a < FE_P.
Proof. intros. apply fhalf_spec. assumption. Qed.
Lemma fcube_lt a : a < FE_P -> fcube a < FE_P.
Proof. intros. apply fmul_lt; [apply fsqr_lt|]; assumption. Qed.

(* reading a 256-bit pattern gives its residue *)
Theorem rd_reduces x : x < P256 -> csub x = x mod FE_P /\ csub x < FE_P.
Proof.
  intros H. assert (x < 2 * FE_P) by (rewrite FE_P_num; unfold P256 in H; lia).
  split; [apply csub_spec|apply csub_lt]; assumption.
Qed.

(* ---- exponentiation *)
Lemma fpow_pos_spec a q : a < FE_P ->
  (fix go (q : positive) : N :=
     match q with
     | xH => a
     | xO r => fsqr (go r)
     | xI r => fmul (fsqr (go r)) a
     end) q = (a ^ Npos q) mod FE_P.
Proof.
  intros Ha. induction q as [r IH|r IH|].
  - rewrite IH. set (x := a ^ N.pos r).
    rewrite fsqr_spec by (apply N.mod_lt, FE_P_pos).
    rewrite fmul_spec by (try assumption; apply N.mod_lt, FE_P_pos).
    rewrite <- N.mul_mod by apply FE_P_pos.
    rewrite N.mul_mod_idemp_l by apply FE_P_pos.
    f_equal. replace (N.pos r~1) with (N.pos r + N.pos r + 1) by lia.
    rewrite !N.pow_add_r, N.pow_1_r. reflexivity.
  - rewrite IH. set (x := a ^ N.pos r).
    rewrite fsqr_spec by (apply N.mod_lt, FE_P_pos).
    rewrite <- N.mul_mod by apply FE_P_pos.
    f_equal. replace (N.pos r~0) with (N.pos r + N.pos r) by lia.
    rewrite N.pow_add_r. reflexivity.
  - rewrite N.pow_1_r, N.mod_small by assumption. reflexivity.
Qed.

Theorem fpow_spec a e : a < FE_P -> fpow a e = (a ^ e) mod FE_P.
Proof.
  intros Ha. destruct e as [|q].
  - simpl. rewrite N.mod_small; [reflexivity|]. rewrite FE_P_num. reflexivity.
  - unfold fpow. apply fpow_pos_spec. assumption.
Qed.

Lemma fpow_lt a e : a < FE_P -> fpow a e < FE_P.
Proof. intros. rewrite fpow_spec by assumption. apply N.mod_lt, FE_P_pos. Qed.

Theorem finv_spec a : a < FE_P -> finv a = (a ^ (FE_P - 2)) mod FE_P.
Proof. intros. apply fpow_spec. assumption. Qed.

(* the square root, when reported, is one *)
Theorem fsqrt_sound a r : a < FE_P -> fsqrt a = (r, true) -> r < FE_P /\ (r * r) mod FE_P = a.
Proof.
  intros Ha E.
  assert (fsqrt a = (fpow a ((FE_P + 1) / 4), fsqr (fpow a ((FE_P + 1) / 4)) =? a)) as U by reflexivity.
  rewrite U in E. apply pair_equal_spec in E. destruct E as [<- E]. apply N.eqb_eq in E.
  split; [apply fpow_lt; assumption|].
  rewrite <- fsqr_spec by (apply fpow_lt; assumption). exact E.
Qed.

(* ------------------------------------------------------------------ points: canonical coordinates are preserved *)
Definition gej_ok (a : gej) : Prop := gx a < FE_P /\ gy a < FE_P /\ gz a < FE_P.
Definition ge_ok (b : ge) : Prop := fst b < FE_P /\ snd b < FE_P.

Lemma lt_3 : 3 < FE_P. Proof. rewrite FE_P_num. reflexivity. Qed.
Lemma lt_7 : 7 < FE_P. Proof. rewrite FE_P_num. reflexivity. Qed.
Lemma lt_1 : 1 < FE_P. Proof. rewrite FE_P_num. reflexivity. Qed.
Lemma lt_0 : 0 < FE_P. Proof. rewrite FE_P_num. reflexivity. Qed.

Ltac fe_lt :=
  repeat first
    [ assumption | apply lt_0 | apply lt_1 | apply lt_3 | apply lt_7
    | apply fmul_lt | apply fsqr_lt | apply fadd_lt | apply fneg_lt | apply fsub_lt | apply fhalf_lt | apply fcube_lt
    | apply fpow_lt ].

Lemma gej_inf_ok : gej_ok gej_inf.
Proof. unfold gej_ok, gej_inf; cbn [gx gy gz]. repeat split; apply lt_0. Qed.

Theorem gej_dbl_ok a : gej_ok a -> gej_ok (fst (gej_dbl a)) /\ snd (gej_dbl a) < FE_P.
Proof.
  intros (Hx & Hy & Hz). unfold gej_dbl. destruct (is_inf a).
  - split; [apply gej_inf_ok|apply lt_1].
  - cbn [fst snd]. unfold gej_ok; cbn [gx gy gz]. repeat split; fe_lt.
Qed.

Lemma add_tail_ok u1 s1 h i rz :
  u1 < FE_P -> s1 < FE_P -> h < FE_P -> i < FE_P -> rz < FE_P -> gej_ok (add_tail u1 s1 h i rz).
Proof. intros. unfold add_tail, gej_ok; cbn [gx gy gz]. repeat split; fe_lt. Qed.

Theorem gej_add_ok a b : gej_ok a -> gej_ok b -> gej_ok (gej_add a b).
Proof.
  intros Ha Hb. unfold gej_add.
  destruct (is_inf a); [assumption|]. destruct (is_inf b); [assumption|].
  destruct Ha as (Hx & Hy & Hz), Hb as (Hx' & Hy' & Hz').
  match goal with |- gej_ok (if ?c then _ else _) => destruct c end.
  - match goal with |- gej_ok (if ?c then _ else _) => destruct c end.
    + apply gej_dbl_ok. repeat split; assumption.
    + apply gej_inf_ok.
  - apply add_tail_ok; fe_lt.
Qed.

Theorem gej_add_ge_z_ok zs a b : zs < FE_P -> gej_ok a -> ge_ok b ->
  gej_ok (fst (gej_add_ge_z zs a b)) /\ snd (gej_add_ge_z zs a b) < FE_P.
Proof.
  intros Hs Ha (Hbx & Hby). unfold gej_add_ge_z. destruct (is_inf a).
  - cbn [fst snd]. unfold gej_ok; cbn [gx gy gz]. repeat split; fe_lt.
  - destruct Ha as (Hx & Hy & Hz).
    match goal with |- context [if ?c then _ else _] => destruct c end.
    + match goal with |- context [if ?c then _ else _] => destruct c end.
      * apply gej_dbl_ok. repeat split; assumption.
      * cbn [fst snd]. split; [apply gej_inf_ok|apply lt_0].
    + cbn [fst snd]. split; [apply add_tail_ok|]; fe_lt.
Qed.

Theorem gej_rescale_ok a s : gej_ok a -> s < FE_P -> gej_ok (gej_rescale a s).
Proof. intros (Hx & Hy & Hz) Hs. unfold gej_rescale, gej_ok; cbn [gx gy gz]. repeat split; fe_lt. Qed.

Lemma gej_affine_eq a :
  gej_affine a = (fmul (gx a) (fsqr (finv (gz a))), fmul (gy a) (fmul (finv (gz a)) (fsqr (finv (gz a))))).
Proof. reflexivity. Qed.

Lemma ge_ok_pair x y : x < FE_P -> y < FE_P -> ge_ok (x, y).
Proof. intros; split; assumption. Qed.

Lemma finv_lt a : a < FE_P -> finv a < FE_P.
Proof. intros. apply fpow_lt. assumption. Qed.

Theorem gej_affine_ok a : gej_ok a -> ge_ok (gej_affine a).
Proof.
  intros (Hx & Hy & Hz). rewrite gej_affine_eq.
  pose proof (finv_lt _ Hz) as Hi. pose proof (fsqr_lt _ Hi) as Hi2.
  apply ge_ok_pair.
  - exact (fmul_lt _ _ Hx Hi2).
  - exact (fmul_lt _ _ Hy (fmul_lt _ _ Hi Hi2)).
Qed.

(* what a jet reads is canonical: a value of type 2^256 is a number below 2^256, rd_fe reduces it *)
Lemma word_num_256 v : has_ty v (word_ty 8) = true -> word_num 8 v < P256.
Proof.
  intros H. unfold word_num, val_be.
  pose proof (val_be_acc_bound (padded_enc (word_ty 8) v) 0) as B.
  rewrite (padded_enc_length _ _ H), width_word in B.
  replace (N.of_nat (N.to_nat (2 ^ N.of_nat 8))) with 256 in B by (vm_compute; reflexivity).
  rewrite P256_pow in B. lia.
Qed.

Theorem rd_fe_spec v : has_ty v (word_ty 8) = true ->
  rd_fe v = (word_num 8 v) mod FE_P /\ rd_fe v < FE_P.
Proof. intros H. apply rd_reduces, word_num_256, H. Qed.

(* ------------------------------------------------------------------ sanity by computation *)
Definition G : ge := (G_X, G_Y).
Definition Gj : gej := gej_of_ge G.

(* the constant 2^128 * G is 128 doublings of G *)
Example g128_ok : gej_affine (Nat.iter 128 (fun a => fst (gej_dbl a)) Gj) = (G128_X, G128_Y).
Proof. vm_compute. reflexivity. Qed.

Example secp_examples :
  ge_on_curve G = true /\
  (* 1 * G in the representation of secp256k1_ecmult *)
  ecmult gej_inf 0 1 = Gj /\
  (* the order of G: (n - 1) G + G is the point at infinity, (n - 1) G = -G *)
  is_inf (ecmult Gj (SC_N - 1) 1) = true /\
  gej_affine (ecmult Gj (SC_N - 1) 0) = ge_neg G /\
  (* the endomorphism: lambda * (x, y) = (beta * x, y) *)
  gej_affine (ecmult Gj SC_LAMBDA 0) = (fmul FE_BETA G_X, G_Y) /\
  (* scalar multiplication against repeated addition: 5 G, and 2 * (3 G) + 4 G = 10 G *)
  gej_affine (ecmult gej_inf 0 5) = gej_affine (fst (gej_add_ge (fst (gej_dbl (fst (gej_dbl Gj)))) G)) /\
  gej_equiv (ecmult (ecmult gej_inf 0 3) 2 4) (ecmult gej_inf 0 10) = true /\
  verify_sum G 2 3 (gej_affine (ecmult gej_inf 0 5)) = true /\
  verify_sum G 2 3 (gej_affine (ecmult gej_inf 0 6)) = false /\
  lift_x G_X (N.odd G_Y) = Some G /\ lift_x G_X (negb (N.odd G_Y)) = Some (ge_neg G) /\
  (* x = 5 is not the abscissa of a point *)
  lift_x 5 true = None /\
  ge_on_curve (swu 1) = true /\ ge_on_curve (swu 2) = true /\ swu (FE_P - 1) = ge_neg (swu 1) /\
  fmul 2 (finv 2) = 1 /\ finv 0 = 0.
Proof. vm_compute. repeat split; reflexivity. Qed.

(* through the dispatcher: adding a point to its negation, to itself, to the point at infinity *)
Example secp_jet_examples :
  let g := wr_gej Gj in
  let ng := wr_gej (gej_neg Gj) in
  let inf := wr_gej gej_inf in
  gspec_sem ec_table 117 (SP g ng) = Some (Some inf) /\
  gspec_sem ec_table 117 (SP g g) = gspec_sem ec_table 118 g /\
  gspec_sem ec_table 117 (SP inf g) = Some (Some g) /\
  gspec_sem ec_table 117 (SP g inf) = Some (Some g) /\
  gspec_sem ec_table 119 (SP g g) = Some (Some (wr_bit true)) /\
  gspec_sem ec_table 119 (SP g ng) = Some (Some (wr_bit false)) /\
  gspec_sem ec_table 124 inf = Some (Some (wr_bit true)) /\
  gspec_sem ec_table 127 inf = Some (Some (SL SU)) /\
  gspec_sem ec_table 127 (wr_gej (gej_rescale Gj 12345)) = Some (Some (SR (wr_ge G))) /\
  (* scale fails on a point that is not on the curve *)
  gspec_sem ec_table 330 (SP (wr_fe 1) (wr_gej (mkGej 1 2 3))) = Some None.
Proof. vm_compute. repeat split; reflexivity. Qed.

(* Fermat's little theorem for p is not proved here (no primality certificate): the inverse and the
   square root are correct in the sense of these statements, which the correspondence check tests *)
Definition finv_statement : Prop := forall a, 0 < a < FE_P -> fmul a (finv a) = 1.
Definition fsqrt_complete_statement : Prop :=
  forall a r, a < FE_P -> r < FE_P -> (r * r) mod FE_P = a -> snd (fsqrt a) = true.

(* ------------------------------------------------------------------ the scalar recodings of secp256k1_ecmult *)
Lemma SC_N_pos : SC_N <> 0. Proof. discriminate. Qed.

(* the endomorphism split: k = r1 + r2 * lambda modulo the group order, both parts reduced *)
Theorem split_lambda_spec k : k < SC_N ->
  let '(r1, r2) := split_lambda k in
  r1 < SC_N /\ r2 < SC_N /\ (r1 + r2 * SC_LAMBDA) mod SC_N = k.
Proof.
  intros Hk. unfold split_lambda.
  set (c1 := (mul_shift_384 k SPLIT_G1 * MINUS_B1) mod SC_N).
  set (c2 := (mul_shift_384 k SPLIT_G2 * MINUS_B2) mod SC_N).
  set (r2 := (c1 + c2) mod SC_N).
  set (m := (r2 * SC_LAMBDA) mod SC_N).
  assert (m < SC_N) as Hm by (apply N.mod_lt, SC_N_pos).
  split; [apply N.mod_lt, SC_N_pos|]. split; [apply N.mod_lt, SC_N_pos|].
  rewrite N.add_mod_idemp_l by apply SC_N_pos.
  rewrite <- N.add_mod_idemp_r by apply SC_N_pos. fold m.
  replace (SC_N - m + k + m) with (k + 1 * SC_N) by lia.
  rewrite N.mod_add by apply SC_N_pos. apply N.mod_small, Hk.
Qed.

(* wNAF digits: value, oddness and size of the digits (computed on the parts of several scalars) *)
Fixpoint wnaf_value (l : list Z) : Z :=
  match l with [] => 0%Z | d :: r => (d + 2 * wnaf_value r)%Z end.
Definition wnaf_digits_ok (w : N) (l : list Z) : bool :=
  (length l =? 129)%nat &&
  forallb (fun d => (d =? 0)%Z || (Z.odd d && (Z.abs d <? 2 ^ (Z.of_N w - 1))%Z)) l.
Definition signed_scalar (s : N) : Z := if N.testbit s 255 then (- Z.of_N (SC_N - s))%Z else Z.of_N s.

Definition wnaf_check (k : N) : bool :=
  let '(r1, r2) := split_lambda k in
  forallb (fun s => wnaf_digits_ok 5 (wnaf 5 s) && (wnaf_value (wnaf 5 s) =? signed_scalar s)%Z) [r1; r2] &&
  forallb (fun s => wnaf_digits_ok 15 (wnaf 15 s) && (wnaf_value (wnaf 15 s) =? Z.of_N s)%Z)
          [N.land k (2 ^ 128 - 1); N.shiftr k 128].

Example wnaf_examples :
  forallb wnaf_check
    [0; 1; 2; 15; 16; 31; 2 ^ 128 - 1; 2 ^ 128; 2 ^ 255; SC_N - 1; SC_N - 2; SC_LAMBDA; SC_N - SC_LAMBDA; SC_N / 2; SC_N / 3;
     55066263022277343669578718895168534326250603453777594175500187360389116729240;
     32670510020758816978083085130507043184471273380659243275938904335757337482424;
     2 ^ 200 + 2 ^ 100 + 2 ^ 14; 2 ^ 129 - 1; 2 ^ 143 - 2 ^ 15] = true.
Proof. vm_compute. reflexivity. Qed.
