(* Executable entry points of the hash-jet correspondence of C15 (tools/props/c15.py): the 28
   SHA-256 composition jets of Env/TxHashes.v on the abstract transaction the harness printed,
   in the canonical form of harness/src/env.rs (status, number of bits, 32-bit groups). *)
From Coq Require Import String Ascii.
From RS Require Import Lib.Tac Lib.Bits Ty.Ty Env.TxSpec Env.Run Env.TxHashes Merkle.Sha256.
Import ListNotations.
Local Open Scope N_scope.

(* by Display name; the position in this list is the hash-jet code used in cases *)
Definition all_hjets : list (string * hjet) := [
  ("output_amounts_hash", H_output_amounts);
  ("output_nonces_hash", H_output_nonces);
  ("output_scripts_hash", H_output_scripts);
  ("output_range_proofs_hash", H_output_range_proofs);
  ("output_surjection_proofs_hash", H_output_surjection_proofs);
  ("outputs_hash", H_outputs);
  ("input_outpoints_hash", H_input_outpoints);
  ("input_amounts_hash", H_input_amounts);
  ("input_scripts_hash", H_input_scripts);
  ("input_utxos_hash", H_input_utxos);
  ("input_sequences_hash", H_input_sequences);
  ("input_annexes_hash", H_input_annexes);
  ("input_script_sigs_hash", H_input_script_sigs);
  ("inputs_hash", H_inputs);
  ("issuance_asset_amounts_hash", H_issuance_asset_amounts);
  ("issuance_token_amounts_hash", H_issuance_token_amounts);
  ("issuance_range_proofs_hash", H_issuance_range_proofs);
  ("issuance_blinding_entropy_hash", H_issuance_blinding_entropy);
  ("issuances_hash", H_issuances);
  ("tx_hash", H_tx);
  ("tapleaf_hash", H_tapleaf);
  ("tappath_hash", H_tappath);
  ("tap_env_hash", H_tap_env);
  ("sig_all_hash", H_sig_all);
  ("input_hash", HI_input);
  ("input_utxo_hash", HI_input_utxo);
  ("issuance_hash", HI_issuance);
  ("output_hash", HI_output)
]%string.

Definition hjet_of_code (c : N) : option (string * hjet) :=
  if c <? N.of_nat (length all_hjets) then nth_error all_hjets (N.to_nat c) else None.

(* the 24 unit hash jets computed once, sharing the inner digests (vm_compute evaluates a `let` once);
   unit_table_spec: it is the list of hjet_bytes *)
Definition unit_hjets : list hjet :=
  [H_output_amounts; H_output_nonces; H_output_scripts; H_output_range_proofs; H_output_surjection_proofs; H_outputs;
   H_input_outpoints; H_input_amounts; H_input_scripts; H_input_utxos; H_input_sequences; H_input_annexes;
   H_input_script_sigs; H_inputs; H_issuance_asset_amounts; H_issuance_token_amounts; H_issuance_range_proofs;
   H_issuance_blinding_entropy; H_issuances; H_tx; H_tapleaf; H_tappath; H_tap_env; H_sig_all].

Definition unit_table (t : txenv) : list bytes :=
  let oa := output_amounts_hash t in
  let on := output_nonces_hash t in
  let os := output_scripts_hash t in
  let orp := output_range_proofs_hash t in
  let osp := output_surjection_proofs_hash t in
  let outs := sha256 (oa ++ on ++ os ++ orp) in
  let iop := input_outpoints_hash t in
  let iam := input_amounts_hash t in
  let isc := input_scripts_hash t in
  let iut := sha256 (iam ++ isc) in
  let isq := input_sequences_hash t in
  let ian := input_annexes_hash t in
  let iss := input_script_sigs_hash t in
  let ins := sha256 (iop ++ isq ++ ian) in
  let iaa := issuance_asset_amounts_hash t in
  let ita := issuance_token_amounts_hash t in
  let irp := issuance_range_proofs_hash t in
  let ibe := issuance_blinding_entropy_hash t in
  let isu := sha256 (iaa ++ ita ++ irp ++ ibe) in
  let txh := sha256 (u32be (tx_version t) ++ u32be (tx_lock_time t) ++ ins ++ outs ++ isu ++ osp ++ iut) in
  let leaf := tapleaf_hash t in
  let path := tappath_hash t in
  let tenv := sha256 (leaf ++ path ++ b32 (tap_internal_key t)) in
  let sig := sha256 (b32 (tx_genesis t) ++ b32 (tx_genesis t) ++ txh ++ tenv ++ u32be (tx_ix t)) in
  [oa; on; os; orp; osp; outs; iop; iam; isc; iut; isq; ian; iss; ins; iaa; ita; irp; ibe; isu; txh; leaf; path; tenv; sig].

Lemma unit_table_spec t : unit_table t = map (fun j => hjet_bytes j t) unit_hjets.
Proof.
  cbv beta iota zeta delta [unit_table map unit_hjets hjet_bytes outputs_hash input_utxos_hash inputs_hash issuances_hash
                            tx_hash tap_env_hash sig_all_hash].
  reflexivity.
Qed.

Definition answer (v : sval) : list N := let b := compact_enc v in 0 :: N.of_nat (length b) :: chunks32 (length b) b.

Definition run_hquery (t : txenv) (tb : list bytes) (q : N * N) : list N :=
  let '(c, arg) := q in
  match hjet_of_code c with
  | None => [3; 0]
  | Some (_, j) =>
      if hjet_indexed j then answer (hjet_spec j t arg)
      else answer (hash_val (nth (N.to_nat c) tb []))
  end.

Definition run_hashes (t : txenv) (qs : list (N * N)) : list N :=
  let tb := unit_table t in flat_map (run_hquery t tb) qs.

(* the table lookup is the specification: the unit jets come first in all_hjets, in the order of unit_hjets *)
Lemma run_hquery_spec t c arg name j :
  hjet_of_code c = Some (name, j) ->
  run_hquery t (unit_table t) (c, arg) = answer (hjet_spec j t arg).
Proof.
  intros H. unfold run_hquery. rewrite H. destruct (hjet_indexed j) eqn:E; [reflexivity|].
  rewrite unit_table_spec. unfold hjet_of_code in H.
  destruct (c <? N.of_nat (length all_hjets)) eqn:Hc; [|discriminate].
  apply N.ltb_lt in Hc. cbn [length all_hjets] in Hc.
  remember (N.to_nat c) as k eqn:Hk.
  assert (Hk28 : (k < 28)%nat) by lia.
  do 28 (destruct k as [|k]; [cbn in H; injection H as _ <-; try discriminate E; reflexivity|]). lia.
Qed.

(* kind env: the introspection jets of Run.v, the separator 55555, then the hash jets *)
Definition run_env2 (t : txenv) (qs hqs : list (N * N)) : list N := run_env t qs ++ 55555 :: run_hashes t hqs.

(* kind jets (hash part): name, source and target type *)
Definition run_hjets (codes : list N) : list N :=
  flat_map (fun c =>
    match hjet_of_code c with
    | None => [99]
    | Some (name, j) =>
        7 :: N.of_nat (String.length name) :: name_bytes name ++ ty_nums (hjet_source j) ++ [6] ++ ty_nums (hjet_target j)
    end) codes.

Definition run_jets2 (codes hcodes : list N) : list N := run_jets codes ++ run_hjets hcodes.

(* non-vacuity: the empty transaction (no inputs, no outputs): every per-field hash is the hash of
   the empty string, and the signature hash is computed *)
Definition empty_env : txenv := demo_env [].
Example empty_hashes :
  N_of_bytes (output_amounts_hash empty_env) = empty_hash /\
  N_of_bytes (input_annexes_hash empty_env) = empty_hash /\
  length (sig_all_hash empty_env) = 32%nat.
Proof. vm_compute. repeat split. Qed.

(* changing a committed field changes the digest on this example (the current index, an output nonce) *)
Definition demo_out (n : conf) : tx_output :=
  {| out_asset := CExplicit 7; out_value := CExplicit 5; out_nonce := n; out_script_hash := empty_hash;
     out_script_empty := true; out_surj_hash := empty_hash; out_range_hash := empty_hash; out_null_data := None |}.
Example committed_fields_matter :
  sig_all_hash (set_outputs empty_env [demo_out CNull]) <> sig_all_hash (set_outputs empty_env [demo_out (CExplicit 9)]) /\
  sig_all_hash (set_outputs empty_env [demo_out (CExplicit 9)]) <> sig_all_hash (set_outputs empty_env [demo_out (CConf false 9)]).
Proof. vm_compute. split; discriminate. Qed.
