(* C01 - executable model of "encode, decode, re-infer, recompute every root" for the correspondence check:
   from the original program (PDL, witness values as compact bits) and its sharing ids the model computes
     the decoded program = the encoder's node list read back as a program (children = yielded indices, payload
       and witness value of the first-yielded node of each class),
     its arrows by C04's reference inference (Infer/Infer.v `infer`: the decoder's typing is NOT taken from the
       implementation here),
     and, with SHA-256 (Merkle/Run.v), the CMR of every node (Merkle/Cmr.v construct) and IHR / AMR
       (Merkle/Ihr.v redeem_table),
   in the form the harness prints for the decoded RedeemNode (command c01, kind rr):
     0 n  then per node   1 <cmr> <ihr> <amr> 4 <source nums> <target nums>   |   5 <cmr> (hidden)
   where every root is ONE number (its 32 bytes read big-endian): printing 96 numerals per node dominated the
   evaluation time otherwise. *)
From Coq Require Import Uint63.
From RS Require Import Lib.Tac Lib.Outcome Lib.Bits Lib.ListExtra Ty.Ty Core.Prog
  Infer.Constraints Infer.Unify Infer.Infer Infer.Order Infer.Run
  Merkle.Sha256 Merkle.Tagged Merkle.Cmr Merkle.Ihr Merkle.Real Merkle.Run
  Codec.NodeCodec Codec.Linearise Codec.WitnessCodec Codec.Run Codec.DecodedProg.
Import ListNotations.
Local Open Scope N_scope.

Definition num_of_bytes (l : list N) : N := fold_left (fun acc b => acc * 256 + b) l 0.
Definition root_num (s : rH) : N := num_of_bytes (bytes_of_state s).

Definition show_roots (cm : list (nrec rH wit_spec unit + rH)) (rt : list (rdata rH + rH)) (tau : list (option tarrow)) : list N :=
  0 :: N.of_nat (length cm) ::
  flat_map (fun k =>
    let c := match nth_error cm k with Some v => root_num (val_cmr rH r_node_alg v) | None => 0 end in
    match nth_error rt k with
    | Some (inl d) => 1 :: c :: root_num (rd_ihr rH d) :: root_num (rd_amr rH d) :: show_arrow (nth k tau None)
    | _ => [5; c]
    end) (seq 0 (length cm)).

Definition run_c01_roots (jets : list (N * N * list N * list N)) (p : prog) (keys : list (option N)) : list N :=
  let q := decoded_prog p keys in
  match infer (jets_of jets) (Some (length q - 1)%nat) q with
  | Ok tau =>
      show_err (r_construct q) (fun cm =>
      show_err (redeem_table rH r_compress r_iv r_ivi r_zero r_of_weight r_bit_cmr r_tmr_unit r_two_two_n
                  r_jet_cmr r_h_of_bytes r_compact_value (combine q tau)) (fun rt =>
      show_roots cm rt tau))
  | Err _ => [1; 21]
  | Panic _ => [9]
  | OutOfFuel => [8]
  end.
