(* C07 - Static resource bounds cover every execution.
   Only pinned statements and `Print Assumptions`.  Models: Core/{Bounds,Limits,Machine}.v;
   proofs Core/MachineCorrect*.v, Core/ExecCorrect.v. *)
From RS Require Import Lib.Tac Lib.Outcome Lib.Bits Ty.Ty Core.Prog Core.Term Core.Typing Core.Sem
  Core.Bounds Core.Limits Core.Machine Core.MachineLemmas Core.MachineCorrect Core.MachineCorrect2
  Core.ExecCorrect Core.Examples Core.BoundsTab Core.LimitsExtra.
Import ListNotations.
Local Open Scope N_scope.

(* 1. bounds_cover, part 1: in a program that check_program accepts no bound arithmetic
   saturated or wrapped: the cell bound is the mathematical recursion, every type width used by
   the machine is exact, io + extra cells fit the limit *)
Theorem C07_accepted_exact : forall prof jet_ty jet_cost t A B, typed jet_ty t A B ->
  check_program prof (bw A) (bw B) (bounds jet_cost t) = Ok tt ->
  small t /\ extra_cells (bounds jet_cost t) = cells t /\ extra_frames (bounds jet_cost t) = frames t /\
  bw A = width A /\ bw B = width B /\ width A + width B + cells t <= MAX_CELLS.
Proof. exact accepted_exact. Qed.
Print Assumptions C07_accepted_exact.

(* 2. bounds_cover, part 2: the machine sized by for_program never panics (no cell index
   >= 8 * data.len(), no frame push beyond the reserved capacity, no failed assertion, no
   debug assertion, no usize underflow), never runs out of fuel, and on every path - failing
   ones too - its high-water marks stay within io width + extra cells and extra frames + 2 *)
Theorem C07_bounds_cover : forall prof jet_ty jet_cost jet_sem t A B,
  jets_typed jet_ty jet_sem -> typed jet_ty t A B ->
  check_program prof (bw A) (bw B) (bounds jet_cost t) = Ok tt ->
  forall a pbits m0, padded_of A a pbits -> length m0 = N.to_nat (machine_cells jet_cost t) ->
    match machine_exec prof jet_cost jet_sem t m0 (Some (A, pbits)) with
    | Ok (st, _) | Err (_, st) =>
        hwc st <= width A + width B + extra_cells (bounds jet_cost t) /\ hwc st <= msize m0 /\
        hwf st <= extra_frames (bounds jet_cost t) + IO_EXTRA_FRAMES
    | Panic _ | OutOfFuel => False
    end.
Proof. exact exec_no_panic. Qed.
Print Assumptions C07_bounds_cover.

(* 3. the invariant behind it, for arbitrary states (part of the main lemma): see
   C05_machine_correct; its [post] / [hw_ok] clauses bound the marks by nfs + cells t and
   depth + frames t for every sub-term, every continuation and every memory content *)
Theorem C07_machine_marks : forall prof cap jet_sem jet_ty t A B,
  jets_typed jet_ty jet_sem -> typed jet_ty t A B -> small t ->
  forall a st k, pre cap st A B t -> enc_at (mem st) (rcur st) A a ->
    match eval jet_sem t a with
    | ROk b => exists st' n, mstar prof cap jet_sem n (st, CGoto t :: k) (st', k) /\ hw_ok st st' t
    | RErr e => exists st' n, mfail prof cap jet_sem n (st, CGoto t :: k) (err_of e, st') /\ hw_ok st st' t
    | RStuck => False
    end.
Proof. exact machine_marks. Qed.
Print Assumptions C07_machine_marks.

(* 4. below saturation the computed cell bound is the mathematical recursion and every type
   width inside the term is exact; the frame bound is always exact *)
Theorem C07_bounds_exact : forall jet_ty jet_cost t A B, typed jet_ty t A B ->
  extra_cells (bounds jet_cost t) < usize_max -> width_sat A < usize_max -> width_sat B < usize_max ->
  extra_cells (bounds jet_cost t) = cells t /\ small t.
Proof. exact bounds_exact. Qed.
Print Assumptions C07_bounds_exact.

Theorem C07_frames_exact : forall jet_cost t, extra_frames (bounds jet_cost t) = frames t.
Proof. exact frames_exact. Qed.
Print Assumptions C07_frames_exact.

(* the bottom-up computation over the node table (every shared node once, as RedeemData::new)
   gives the bounds of the tree that execution unfolds from each node *)
Theorem C07_bounds_tab_term : forall jet_cost (tp : typed_prog) cm, wf_from 0 (map fst tp) = true ->
  forall fuel i t, term_of fuel tp cm i = Some t ->
    nth i (bounds_tab jet_cost (wprog_of tp)) (nb_fail, (0, 0)) = (bounds jet_cost t, (bw (src t), bw (tgt t))).
Proof. exact bounds_tab_term. Qed.
Print Assumptions C07_bounds_tab_term.

(* 5. limits_refuse: check_program returns an error exactly when one of the seven quantities
   exceeds its limit; its own additions never overflow; for_program follows it *)
Theorem C07_limits_refuse : forall p sw tw b,
  sw <= usize_max -> tw <= usize_max -> extra_cells b <= usize_max -> extra_frames b <= usize_max ->
  (check_program p sw tw b = Ok tt <-> within_limits sw tw b) /\
  (forall e, check_program p sw tw b = Err e -> ~ within_limits sw tw b) /\
  (forall c, check_program p sw tw b <> Panic c) /\ check_program p sw tw b <> OutOfFuel.
Proof. exact check_program_iff. Qed.
Print Assumptions C07_limits_refuse.

Theorem C07_for_program_refuses : forall prof jet_cost t,
  extra_frames (bounds jet_cost t) <= usize_max ->
  (exists st, for_program prof jet_cost t = Ok st) <->
  within_limits (bw (src t)) (bw (tgt t)) (bounds jet_cost t).
Proof. exact for_program_refuses. Qed.
Print Assumptions C07_for_program_refuses.

Theorem C07_for_program_no_panic : forall prof jet_cost t,
  extra_frames (bounds jet_cost t) <= usize_max ->
  match for_program prof jet_cost t with Panic _ | OutOfFuel => False | _ => True end.
Proof. exact for_program_no_panic. Qed.
Print Assumptions C07_for_program_no_panic.

(* 6. the formula before the fix (finding F-C07): the debug build panicked while computing the
   bound, the release build wrapped it below the size of the frame that comp allocates *)
Theorem C07_bounds_old_refuted :
  exists l r mid : N, l <= usize_max /\ r <= usize_max /\ mid <= usize_max /\
    comp_cells_old Debug l r mid = Panic 20 /\
    exists c, comp_cells_old Release l r mid = Ok c /\ c < mid /\
    extra_cells (nb_comp (mkNB l 0 0) (mkNB r 0 0) mid) = usize_max.
Proof. exact bounds_old_refuted. Qed.
Print Assumptions C07_bounds_old_refuted.

(* 7. non-vacuity: an accepted program with its marks and bounds *)
Theorem C07_example_comp :
  typed no_jet_ty ex_comp Bit Bit /\
  check_program Debug (bw Bit) (bw Bit) (bounds no_jet_cost ex_comp) = Ok tt /\
  exists st, machine_exec Debug no_jet_cost no_jet_sem ex_comp (dirty ex_comp) (Some (Bit, [true])) = Ok (st, [true]) /\
             hwc st = 4 /\ hwf st = 3 /\ bounds no_jet_cost ex_comp = mkNB 2 1 605.
Proof. exact (conj ex_comp_typed (conj ex_comp_accepted (proj2 ex_comp_run))). Qed.
Print Assumptions C07_example_comp.

(* 8. the hard limits, pinned to the documented values (the constants are regenerated from
   bit_machine/limits.rs on every run): a total of exactly 2^31 - 1 cells is accepted, 2^31 is
   refused with the error the code reports, for any bounds within the frame limit *)
Theorem C07_hard_limits : MAX_CELLS = 2 ^ 31 - 1 /\ MAX_FRAMES = 2 ^ 20.
Proof. exact hard_limits. Qed.
Print Assumptions C07_hard_limits.

Theorem C07_limits_boundary : forall p b, extra_cells b = 0 -> extra_frames b <= 2 ^ 20 - 2 ->
  check_program p 0 (2 ^ 31 - 1) b = Ok tt /\
  check_program p (2 ^ 30) (2 ^ 30 - 1) b = Ok tt /\
  check_program p 0 (2 ^ 31) b = Err (MaxCellsExceeded (2 ^ 31) (2 ^ 31 - 1) 1) /\
  check_program p (2 ^ 30) (2 ^ 30) b = Err (MaxCellsExceeded (2 ^ 31) (2 ^ 31 - 1) 3).
Proof. exact limits_boundary. Qed.
Print Assumptions C07_limits_boundary.
