(* C17 - the parser model applied to the output of the renderer model, part 3: finalisation
   (`fin`, the second walk of the parser over the constructed nodes) of a table in which typed
   holes occur exactly as right children of disconnect nodes: no hole error, and the table of
   commit nodes it builds is a copy of the part reachable from the root. *)
From RS Require Import Lib.Tac Lib.Outcome Human.Namer Human.Render Human.Resolve
  Human.RenderProofs Human.ResolveProofs Human.ConvProofs.
Import ListNotations.
Local Open Scope N_scope.

Lemma fin_eq f t i st :
  fin (S f) t i st =
  match map_get (fs_map st) i with
  | Some j => (Some j, st)
  | None =>
      let n := nget t i in
      let '(l', st1) := match nn_l n with Some c => fin f t c st | None => (None, st) end in
      let '(r', st2) := match nn_r n with Some c => fin f t c st1 | None => (None, st1) end in
      let is_disc := kind_eqb (nn_kind n) KDisconnect in
      let errs1 := if is_disc then fs_errs st2
                   else if fs_pending st2 then fs_errs st2 ++ [EHoleAtCommit] else fs_errs st2 in
      let pending := if is_disc then false else opt_some (typed_hole n) in
      let '(hole, errs2) :=
        if is_disc then
          match nn_r n with
          | Some c => match typed_hole (nget t c) with
                      | Some h => (Some h, errs1)
                      | None => (Some (NUser 0), errs1 ++ [EHoleFilled])
                      end
          | None => (Some (NUser 0), errs1 ++ [EHoleFilled])
          end
        else (None, errs1) in
      let j := length (fs_tbl st2) in
      (Some j,
       mk_fs (fs_tbl st2 ++ [mk_nn (nn_kind n) (nn_pay n) l' (if is_disc then None else r') (nn_name n) hole])
             ((i, j) :: fs_map st2) pending errs2)
  end.
Proof. reflexivity. Qed.

Section StageB.
Variable t : ndag.
Variable good : nat -> Prop.
Hypothesis good_lt : forall j, good j -> (j < length t)%nat.
Hypothesis good_nohole : forall j, good j -> nn_hole (nget t j) = None.
Hypothesis good_l : forall j c, good j -> nn_l (nget t j) = Some c -> good c /\ (c < j)%nat.
Hypothesis good_r : forall j c, good j -> nn_r (nget t j) = Some c ->
  if kind_eqb (nn_kind (nget t j)) KDisconnect
  then (c < j)%nat /\ exists hn, nget t c = hole_node hn
  else good c /\ (c < j)%nat.
Hypothesis disc_r : forall j, good j -> nn_kind (nget t j) = KDisconnect -> exists c, nn_r (nget t j) = Some c.

Definition tgt (j : nat) : Prop := good j \/ exists hn, nget t j = hole_node hn.
Definition is_hole (j : nat) : Prop := typed_hole (nget t j) <> None.

Lemma good_not_hole j : good j -> ~ is_hole j.
Proof.
  intros G H. apply H. unfold typed_hole. rewrite (good_nohole j G). destruct (nn_kind (nget t j)); reflexivity.
Qed.

Record node_relB (nu : list (nat * nat)) (d' : ndag) (j k : nat) : Prop := mk_relB {
  rb_lt : (k < length d')%nat;
  rb_kind : nn_kind (nget d' k) = nn_kind (nget t j);
  rb_pay : nn_pay (nget d' k) = nn_pay (nget t j);
  rb_name : nn_name (nget d' k) = nn_name (nget t j);
  rb_l : nn_l (nget d' k) = lift nu (nn_l (nget t j));
  rb_ldef : forall c, nn_l (nget t j) = Some c -> exists kc, map_get nu c = Some kc /\ (kc < k)%nat;
  rb_r : if kind_eqb (nn_kind (nget t j)) KDisconnect
         then nn_r (nget d' k) = None /\
              exists c hn, nn_r (nget t j) = Some c /\ nget t c = hole_node hn /\
                           nn_hole (nget d' k) = Some hn
         else nn_r (nget d' k) = lift nu (nn_r (nget t j)) /\
              (forall c, nn_r (nget t j) = Some c -> exists kc, map_get nu c = Some kc /\ (kc < k)%nat) /\
              nn_hole (nget d' k) = None }.

Lemma node_relB_mono nu nu' d' more j k :
  extends nu nu' -> node_relB nu d' j k -> node_relB nu' (d' ++ more) j k.
Proof.
  intros E [Hlt Hk Hp Hn Hl Hld Hr].
  assert (Eq : nget (d' ++ more) k = nget d' k) by (apply nget_app_old; exact Hlt).
  constructor; rewrite ?Eq; try assumption.
  - rewrite app_length. lia.
  - rewrite Hl. symmetry. destruct (nn_l (nget t j)) as [c|]; [|reflexivity]. cbn [lift].
    destruct (Hld c eq_refl) as [kc [Hkc _]]. rewrite Hkc. apply E. exact Hkc.
  - intros c Hc. destruct (Hld c Hc) as [kc [Hkc Hlt']]. exists kc. split; [apply E; exact Hkc | exact Hlt'].
  - destruct (kind_eqb (nn_kind (nget t j)) KDisconnect); [exact Hr|].
    destruct Hr as [Hr [Hrd Hh]]. repeat split; try assumption.
    + rewrite Hr. symmetry. destruct (nn_r (nget t j)) as [c|]; [|reflexivity]. cbn [lift].
      destruct (Hrd c eq_refl) as [kc [Hkc _]]. rewrite Hkc. apply E. exact Hkc.
    + intros c Hc. destruct (Hrd c Hc) as [kc [Hkc Hlt']]. exists kc. split; [apply E; exact Hkc | exact Hlt'].
Qed.

Record invB (st : fstate) : Prop := mk_invB {
  ib_errs : fs_errs st = [];
  ib_tgt : forall j k, map_get (fs_map st) j = Some k -> tgt j;
  ib_inj : forall a b k, map_get (fs_map st) a = Some k -> map_get (fs_map st) b = Some k -> a = b;
  ib_rel : forall j k, map_get (fs_map st) j = Some k -> node_relB (fs_map st) (fs_tbl st) j k;
  ib_onto : forall k, (k < length (fs_tbl st))%nat -> exists j, map_get (fs_map st) j = Some k }.

Definition ftbl_extends (st st' : fstate) : Prop := exists more, fs_tbl st' = fs_tbl st ++ more.

Definition fin_post (j : nat) (st : fstate) (k : nat) (st' : fstate) : Prop :=
  invB st' /\ extends (fs_map st) (fs_map st') /\ map_get (fs_map st') j = Some k /\
  ftbl_extends st st' /\
  (fs_pending st' = true -> is_hole j) /\
  (forall b, In b (map fst (fs_map st')) -> In b (map fst (fs_map st)) \/ (b <= j)%nat) /\
  (* when the node is new it is the last one of the table *)
  (map_get (fs_map st) j = None -> S k = length (fs_tbl st')).

Lemma tgt_lt j : tgt j -> (forall p c, good p -> nn_r (nget t p) = Some c -> (c < length t)%nat) ->
  (j < length t)%nat \/ exists hn, nget t j = hole_node hn.
Proof. intros [G|H] _; [left; apply good_lt; exact G | right; exact H]. Qed.

Lemma hole_node_fields hn :
  nn_kind (hole_node hn) = KWitness /\ nn_pay (hole_node hn) = [] /\ nn_l (hole_node hn) = None /\
  nn_r (hole_node hn) = None /\ nn_name (hole_node hn) = hn /\ nn_hole (hole_node hn) = Some hn.
Proof. repeat split. Qed.

(* pushing the commit node of j *)
Lemma push_relB st j n :
  invB st -> tgt j -> map_get (fs_map st) j = None ->
  node_relB ((j, length (fs_tbl st)) :: fs_map st) (fs_tbl st ++ [n]) j (length (fs_tbl st)) ->
  forall p, invB (mk_fs (fs_tbl st ++ [n]) ((j, length (fs_tbl st)) :: fs_map st) p []).
Proof.
  intros [Ie It Ii Ir Io] Ht Hn Hrel p.
  assert (Ex : extends (fs_map st) ((j, length (fs_tbl st)) :: fs_map st)) by (apply extends_cons; exact Hn).
  constructor; cbn [fs_errs fs_map fs_tbl].
  - reflexivity.
  - intros x k Hx. rewrite map_get_cons in Hx. destruct (Nat.eqb j x) eqn:E.
    + apply Nat.eqb_eq in E. subst. exact Ht.
    + eapply It. exact Hx.
  - intros x y k Hx Hy. rewrite map_get_cons in Hx, Hy.
    destruct (Nat.eqb j x) eqn:E1, (Nat.eqb j y) eqn:E2.
    + apply Nat.eqb_eq in E1, E2. congruence.
    + injection Hx as <-. pose proof (rb_lt _ _ _ _ (Ir y _ Hy)). lia.
    + injection Hy as <-. pose proof (rb_lt _ _ _ _ (Ir x _ Hx)). lia.
    + eapply Ii; eauto.
  - intros x k Hx. rewrite map_get_cons in Hx. destruct (Nat.eqb j x) eqn:E.
    + apply Nat.eqb_eq in E. injection Hx as <-. subst x. exact Hrel.
    + apply (node_relB_mono (fs_map st)); [exact Ex | apply Ir; exact Hx].
  - intros k Hk. rewrite app_length in Hk. cbn in Hk.
    destruct (Nat.eq_dec k (length (fs_tbl st))) as [->|Hne].
    + exists j. rewrite map_get_cons, Nat.eqb_refl. reflexivity.
    + destruct (Io k ltac:(lia)) as [x Hx]. exists x. apply Ex. exact Hx.
Qed.

Lemma fin_ok : forall fuel j st,
  (j < fuel)%nat -> invB st -> tgt j -> fs_pending st = false ->
  exists k st', fin fuel t j st = (Some k, st') /\ fin_post j st k st'.
Proof.
  induction fuel as [|f IH]; intros j st Hf Inv Ht Hp; [lia|].
  rewrite fin_eq.
  destruct (map_get (fs_map st) j) as [k|] eqn:Eg.
  { exists k, st. split; [reflexivity|]. split; [exact Inv|]. split; [apply extends_refl|].
    split; [exact Eg|]. split; [exists []; rewrite app_nil_r; reflexivity|].
    split; [intros H; congruence|]. split; [intros b Hb; left; exact Hb | intros H; congruence]. }
  cbv zeta.
  destruct Ht as [G|[hn Hh]].
  - (* a node that stands for a node of the rendered DAG *)
    (* left child *)
    assert (L : exists l' st1, (match nn_l (nget t j) with Some c => fin f t c st | None => (None, st) end) = (l', st1) /\
              invB st1 /\ extends (fs_map st) (fs_map st1) /\ ftbl_extends st st1 /\ fs_pending st1 = false /\
              l' = lift (fs_map st1) (nn_l (nget t j)) /\
              (forall c, nn_l (nget t j) = Some c -> exists kc, map_get (fs_map st1) c = Some kc) /\
              (forall b, In b (map fst (fs_map st1)) -> In b (map fst (fs_map st)) \/ (b < j)%nat)).
    { destruct (nn_l (nget t j)) as [c|] eqn:El.
      - destruct (good_l j c G El) as [Gc Hcj].
        destruct (IH c st ltac:(lia) Inv (or_introl Gc) Hp) as [kc [st1 [E [I1 [E1 [M1 [T1 [P1 [B1 _]]]]]]]]].
        exists (Some kc), st1. split; [exact E|]. split; [exact I1|]. split; [exact E1|]. split; [exact T1|].
        split.
        + destruct (fs_pending st1) eqn:Ep; [|reflexivity]. exfalso. exact (good_not_hole c Gc (P1 eq_refl)).
        + split; [cbn [lift]; symmetry; exact M1|]. split.
          * intros c' Hc'. injection Hc' as <-. eauto.
          * intros b Hb. destruct (B1 b Hb) as [H|H]; [left; exact H | right; lia].
      - exists None, st. split; [reflexivity|]. split; [exact Inv|]. split; [apply extends_refl|].
        split; [exists []; rewrite app_nil_r; reflexivity|]. split; [exact Hp|]. split; [reflexivity|].
        split; [discriminate | intros b Hb; left; exact Hb]. }
    destruct L as [l' [st1 [EL [I1 [E1 [T1 [P1 [Hl' [D1 B1]]]]]]]]]. rewrite EL.
    destruct (kind_eqb (nn_kind (nget t j)) KDisconnect) eqn:Ek.
    + (* disconnect: the right child is the hole *)
      apply kind_eqb_eq in Ek.
      destruct (disc_r j G Ek) as [c Er]. rewrite Er.
      pose proof (good_r j c G Er) as Hr. rewrite Ek in Hr. cbn in Hr. destruct Hr as [Hcj [hn Hc]].
      destruct (IH c st1 ltac:(lia) I1 (or_intror (ex_intro _ hn Hc)) P1) as [kc [st2 [E [I2 [E2 [M2 [T2 [P2 [B2 _]]]]]]]]].
      rewrite E. rewrite Hc. cbn [typed_hole hole_node nn_kind nn_hole].
      rewrite (ib_errs _ I2).
      exists (length (fs_tbl st2)). eexists. split; [reflexivity|].
      assert (Hn2 : map_get (fs_map st2) j = None).
      { destruct (map_get (fs_map st2) j) as [x|] eqn:Ex; [|reflexivity].
        apply map_get_keys in Ex. destruct (B2 j Ex) as [H|H]; [|lia].
        destruct (B1 j H) as [H'|H']; [|lia]. apply map_get_none_keys in Eg. contradiction. }
      split; [|split; [|split; [|split; [|split; [|split]]]]]; cbn [fs_map fs_tbl fs_pending].
      * apply (push_relB st2 j); [exact I2 | left; exact G | exact Hn2 |].
        assert (Ex2 : extends (fs_map st2) ((j, length (fs_tbl st2)) :: fs_map st2)) by (apply extends_cons; exact Hn2).
        constructor; rewrite ?nget_app_new; cbn [nn_kind nn_pay nn_name nn_hole nn_l nn_r].
        -- rewrite app_length. cbn. lia.
        -- reflexivity.
        -- reflexivity.
        -- reflexivity.
        -- rewrite Hl'. destruct (nn_l (nget t j)) as [cl|]; [|reflexivity]. cbn [lift].
           destruct (D1 cl eq_refl) as [kl Hkl]. rewrite Hkl. symmetry. apply Ex2, E2. exact Hkl.
        -- intros cl Hcl. destruct (D1 cl Hcl) as [kl Hkl]. exists kl. split; [apply Ex2, E2; exact Hkl|].
           exact (rb_lt _ _ _ _ (ib_rel _ I2 cl kl (E2 _ _ Hkl))).
        -- rewrite Ek. cbn. split; [reflexivity|]. exists c, hn. repeat split; assumption.
      * eapply extends_trans; [exact E1|]. eapply extends_trans; [exact E2|]. apply extends_cons. exact Hn2.
      * rewrite map_get_cons, Nat.eqb_refl. reflexivity.
      * destruct T1 as [m1 T1], T2 as [m2 T2]. exists (m1 ++ m2 ++ [mk_nn (nn_kind (nget t j)) (nn_pay (nget t j)) l' None (nn_name (nget t j)) (Some hn)]).
        rewrite T2, T1, <- !app_assoc. reflexivity.
      * discriminate.
      * intros b Hb. cbn [map fst In] in Hb. destruct Hb as [<-|Hb]; [right; lia|].
        destruct (B2 b Hb) as [H|H]; [|right; lia]. destruct (B1 b H) as [H'|H']; [left; exact H' | right; lia].
      * intros _. rewrite app_length. cbn. lia.
    + (* any other node: the right child is an ordinary node *)
      assert (R : exists r' st2, (match nn_r (nget t j) with Some c => fin f t c st1 | None => (None, st1) end) = (r', st2) /\
                invB st2 /\ extends (fs_map st1) (fs_map st2) /\ ftbl_extends st1 st2 /\ fs_pending st2 = false /\
                r' = lift (fs_map st2) (nn_r (nget t j)) /\
                (forall c, nn_r (nget t j) = Some c -> exists kc, map_get (fs_map st2) c = Some kc) /\
                (forall b, In b (map fst (fs_map st2)) -> In b (map fst (fs_map st1)) \/ (b < j)%nat)).
      { destruct (nn_r (nget t j)) as [c|] eqn:Er.
        - pose proof (good_r j c G Er) as Hr. rewrite Ek in Hr. destruct Hr as [Gc Hcj].
          destruct (IH c st1 ltac:(lia) I1 (or_introl Gc) P1) as [kc [st2 [E [I2 [E2 [M2 [T2 [P2 [B2 _]]]]]]]]].
          exists (Some kc), st2. split; [exact E|]. split; [exact I2|]. split; [exact E2|]. split; [exact T2|].
          split.
          + destruct (fs_pending st2) eqn:Ep; [|reflexivity]. exfalso. exact (good_not_hole c Gc (P2 eq_refl)).
          + split; [cbn [lift]; symmetry; exact M2|]. split.
            * intros c' Hc'. injection Hc' as <-. eauto.
            * intros b Hb. destruct (B2 b Hb) as [H|H]; [left; exact H | right; lia].
        - exists None, st1. split; [reflexivity|]. split; [exact I1|]. split; [apply extends_refl|].
          split; [exists []; rewrite app_nil_r; reflexivity|]. split; [exact P1|]. split; [reflexivity|].
          split; [discriminate | intros b Hb; left; exact Hb]. }
      destruct R as [r' [st2 [ER [I2 [E2 [T2 [P2 [Hr' [D2 B2]]]]]]]]]. rewrite ER.
      rewrite P2, (ib_errs _ I2).
      assert (Hth : typed_hole (nget t j) = None).
      { unfold typed_hole. rewrite (good_nohole j G). destruct (nn_kind (nget t j)); reflexivity. }
      rewrite Hth. cbn [opt_some].
      exists (length (fs_tbl st2)). eexists. split; [reflexivity|].
      assert (Hn2 : map_get (fs_map st2) j = None).
      { destruct (map_get (fs_map st2) j) as [x|] eqn:Ex; [|reflexivity].
        apply map_get_keys in Ex. destruct (B2 j Ex) as [H|H]; [|lia].
        destruct (B1 j H) as [H'|H']; [|lia]. apply map_get_none_keys in Eg. contradiction. }
      assert (Ex2 : extends (fs_map st2) ((j, length (fs_tbl st2)) :: fs_map st2)) by (apply extends_cons; exact Hn2).
      split; [|split; [|split; [|split; [|split; [|split]]]]]; cbn [fs_map fs_tbl fs_pending].
      * apply (push_relB st2 j); [exact I2 | left; exact G | exact Hn2 |].
        constructor; rewrite ?nget_app_new; cbn [nn_kind nn_pay nn_name nn_hole nn_l nn_r].
        -- rewrite app_length. cbn. lia.
        -- reflexivity.
        -- reflexivity.
        -- reflexivity.
        -- rewrite Hl'. destruct (nn_l (nget t j)) as [cl|]; [|reflexivity]. cbn [lift].
           destruct (D1 cl eq_refl) as [kl Hkl]. rewrite Hkl. symmetry. apply Ex2, E2. exact Hkl.
        -- intros cl Hcl. destruct (D1 cl Hcl) as [kl Hkl]. exists kl. split; [apply Ex2, E2; exact Hkl|].
           exact (rb_lt _ _ _ _ (ib_rel _ I2 cl kl (E2 _ _ Hkl))).
        -- rewrite Ek. split; [|split; [|reflexivity]].
           ++ rewrite Hr'. destruct (nn_r (nget t j)) as [cr|]; [|reflexivity]. cbn [lift].
              destruct (D2 cr eq_refl) as [kr Hkr]. rewrite Hkr. symmetry. apply Ex2. exact Hkr.
           ++ intros cr Hcr. destruct (D2 cr Hcr) as [kr Hkr]. exists kr. split; [apply Ex2; exact Hkr|].
              exact (rb_lt _ _ _ _ (ib_rel _ I2 cr kr Hkr)).
      * eapply extends_trans; [exact E1|]. eapply extends_trans; [exact E2|]. exact Ex2.
      * rewrite map_get_cons, Nat.eqb_refl. reflexivity.
      * destruct T1 as [m1 T1], T2 as [m2 T2]. eexists (m1 ++ m2 ++ [_]).
        rewrite T2, T1, <- !app_assoc. reflexivity.
      * discriminate.
      * intros b Hb. cbn [map fst In] in Hb. destruct Hb as [<-|Hb]; [right; lia|].
        destruct (B2 b Hb) as [H|H]; [|right; lia]. destruct (B1 b H) as [H'|H']; [left; exact H' | right; lia].
      * intros _. rewrite app_length. cbn. lia.
  - (* a hole: a witness node without children; it leaves the pending flag set *)
    rewrite Hh. cbn [hole_node nn_l nn_r nn_kind nn_pay nn_name nn_hole kind_eqb kind_code N.eqb Pos.eqb typed_hole opt_some].
    rewrite Hp, (ib_errs _ Inv).
    exists (length (fs_tbl st)). eexists. split; [reflexivity|].
    assert (Ex : extends (fs_map st) ((j, length (fs_tbl st)) :: fs_map st)) by (apply extends_cons; exact Eg).
    split; [|split; [|split; [|split; [|split; [|split]]]]]; cbn [fs_map fs_tbl fs_pending].
    + apply (push_relB st j); [exact Inv | right; exists hn; exact Hh | exact Eg |].
      constructor; rewrite ?nget_app_new, ?Hh; cbn [hole_node nn_kind nn_pay nn_name nn_hole nn_l nn_r lift].
      * rewrite app_length. cbn. lia.
      * reflexivity.
      * reflexivity.
      * reflexivity.
      * reflexivity.
      * discriminate.
      * cbn. split; [reflexivity|]. split; [discriminate | reflexivity].
    + exact Ex.
    + rewrite map_get_cons, Nat.eqb_refl. reflexivity.
    + eexists. reflexivity.
    + intros _. unfold is_hole. rewrite Hh. cbn. discriminate.
    + intros b Hb. cbn [map fst In] in Hb. destruct Hb as [<-|Hb]; [right; lia | left; exact Hb].
    + intros _. rewrite app_length. cbn. lia.
Qed.

End StageB.
