"""C06 - Rust and C evaluators reach the same verdict  (level: other).

Differential check: BitMachine::for_program + exec (Rust, no tail-call optimisation) vs libsimplicity's
evalTCOExpression with anti-DoS flags off (C, TCO machine), on generated well-typed 1->1 Elements programs
with their witnesses, in generated transaction environments.  Both evaluators receive the SAME marshalled
C environment (ElementsEnv::c_tx_env())."""
import os

import proggen as pg
import vplib
from vplib import Case
from props import cdiff_common as cc

PROP = "C06"
LEVEL = "other"
IMPORTS = ["Cdiff.Run"]

STATS = {}


def bump(k, n=1):
    STATS[k] = STATS.get(k, 0) + n


def parse(r):
    d = {"build_error": None}
    if r[0] != 0:
        d["build_error"] = r[1] if len(r) > 1 else -1
        return d
    (d["rk"], d["cstage"], d["ck"], d["craw"], d["ak"], d["cost"], d["cells"], d["nodes"], d["jets"], d["nfail"]) = r[1:11]
    assert r[11] == 88
    i = r.index(89, 12)
    d["env"] = r[12:i]
    d["cmr"] = r[i + 1:i + 33]
    d["pruned_cmr"] = r[i + 34:i + 66] if len(r) > i + 33 and r[i + 33] == 90 else None
    return d


def prop_check(c, r):
    if r in ("CRASH", "TIMEOUT") or r is None:
        return ("crash", "harness process died or hung (C abort / segfault?) on %s" % c.line[:300])
    if r == [9]:
        return ("harness-panic", "panic outside the guarded sections on %s" % c.line[:300])
    if c.kind == "classes":
        return None
    if c.kind == "rp_budget":
        # run_program(unit, Everything, Some(budget), None): NO_ERROR iff 100 milli WU <= 1000 * budget
        exp = [0, 0] if 100 <= 1000 * c.meta["budget"] else [0, 34]
        if r != exp:
            return ("run_program-budget", "run_program(unit, Some(%d)) returned %s, expected %s" % (c.meta["budget"], r, exp))
        bump("run_program_budget_regression")
        return None
    try:
        d = parse(r)
    except (AssertionError, ValueError, IndexError) as e:
        return ("unparsable", "harness output not understood: %s" % (e,))
    c.meta["parsed"] = d
    if d["build_error"] is not None:
        bump("build_error_%s" % d["build_error"])
        return None
    what = "env %s program %s" % tuple(c.line.split()[:2])
    rk, ck = d["rk"], d["ck"]
    bump("kinds rust=%s c=%s" % (cc.EXEC_KIND.get(rk, rk), cc.EXEC_KIND.get(ck, "decode:" + cc.DECODE_CLASS.get(ck - 100, "?") if ck >= 100 else ck)))
    if rk == 9:
        return ("rust-panic", "BitMachine::exec panicked on " + what)
    sem = c.meta.get("sem")
    if sem is not None:
        # the Coq big-step semantics (Core/Sem.v eval with the jets of Jets/JetSpec.v) as third party
        sk = {0: 0, 6: 12, 7: 12}.get(sem[0], None) if sem[0] != 1 else {1: 1, 2: 3, 3: 2}.get(sem[1], 12)
        bump("sem3 coq=%s rust=%s c=%s" % (cc.EXEC_KIND.get(sk, sk), cc.EXEC_KIND.get(rk, rk),
                                            cc.EXEC_KIND.get(ck, "decode:" + cc.DECODE_CLASS.get(ck - 100, "?") if ck >= 100 else ck)))
        if sk == 12:
            return ("semantics-stuck", "Core/Sem.v eval is stuck / the program is not a term of the model (%s) on %s" % (sem[:2], what))
        if rk != 4 and rk != sk:
            return ("sem-rust", "Coq semantics: %s, Rust: %s (C: %s) on %s"
                    % (cc.EXEC_KIND.get(sk), cc.EXEC_KIND.get(rk, rk), cc.EXEC_KIND.get(ck, ck), what))
        if sk == 1 and rk == 1 and d.get("pruned_cmr") is not None and d["pruned_cmr"] != sem[2:34]:
            return ("sem-rust-assertion", "assertion failure on a different hidden branch: Coq %s, Rust %s on %s"
                    % (cc.hexs(sem[2:34]), cc.hexs(d["pruned_cmr"]), what))
        if d["nfail"] == 0 and d["cstage"] == 0 and ck != 4 and ck != sk:
            return ("sem-c", "Coq semantics: %s, C: %s (raw -%d; Rust: %s) on %s"
                    % (cc.EXEC_KIND.get(sk), cc.EXEC_KIND.get(ck, ck), d["craw"], cc.EXEC_KIND.get(rk, rk), what))
        bump("sem3 compared")
    if d["nfail"] > 0:
        bump("fail_node_excluded")
        if d["cstage"] == 0:
            return ("fail-accepted-by-c", "program with a fail node accepted by the C decoder: " + what)
        return None
    if d["cstage"] != 0:
        if ck == 100 + 11:
            bump("outside_limits_c_resource")
            return None
        return ("c-rejects-generated-program", "libsimplicity refuses (stage %d, -%d) a program built and encoded by the Rust library: %s"
                % (d["cstage"], d["craw"], what))
    if ck == 4:
        bump("outside_limits_c_memory_or_budget")
        return None
    if rk == 4:
        return ("rust-limit", "Rust reports a resource limit where C runs (C kind %s): %s" % (cc.EXEC_KIND.get(ck), what))
    if rk != ck:
        return ("verdict", "Rust: %s, C: %s (raw -%d) on %s" % (cc.EXEC_KIND.get(rk, rk), cc.EXEC_KIND.get(ck, ck), d["craw"], what))
    if "expect" in c.meta:
        bump("probe_" + c.meta["probe"])
        if rk != c.meta["expect"]:
            return ("environment-probe", "probe %s: both evaluators say %s, the environment parameters imply %s: %s"
                    % (c.meta["probe"], cc.EXEC_KIND.get(rk), cc.EXEC_KIND.get(c.meta["expect"]), what))
    bump("agree_" + cc.EXEC_KIND.get(rk, str(rk)))
    if rk == 0:
        bump("antidos_run_" + cc.EXEC_KIND.get(d["ak"], str(d["ak"])))
    return None


def finding_match(c, r, cls):
    for f in vplib.open_findings(PROP):
        if f.get("match", {}).get("kind") == cls:
            return f["id"]
    return None


def nontrivial(c, r):
    if c.kind != "run" or not isinstance(r, list) or not r or r[0] != 0:
        return None
    f = c.meta.get("features", {})
    if f.get("jets", 0) + f.get("case", 0) + f.get("wit", 0) + f.get("disc", 0) == 0:
        return None
    return c.line


def corpus_cases():
    out = []
    d = os.path.join(vplib.VERIF, "corpus", PROP)
    if os.path.isdir(d):
        for fn in sorted(os.listdir(d)):
            if fn.endswith(".case"):
                for k, line in enumerate(open(os.path.join(d, fn))):
                    t = line.split()
                    if not t or t[0].startswith("#"):
                        continue
                    if t[0] == "rp_budget":
                        out.append(Case("k%s_%d" % (fn[:-5], k), "rp_budget", t[1], None, {"origin": "corpus", "budget": int(t[1])}))
                        continue
                    out.append(Case("k%s_%d" % (fn[:-5], k), "run", " ".join(t[1:]), None,
                                    {"origin": "corpus", "features": {"jets": 1}}))
    return out


def run(rep, tier, rng):
    import time as _time
    STATS.clear()
    T = {}
    _t0 = [_time.time()]

    def lap(name):
        T[name] = round(_time.time() - _t0[0], 1)
        _t0[0] = _time.time()
    rep.coverage["explanation"] = (
        "Level 'other': differential comparison, not a proof about either evaluator.  For every generated case "
        "(program of type 1 -> 1 with witness values, transaction environment) the verdict of the Rust Bit Machine "
        "(BitMachine::for_program + exec: success / ReachedPrunedBranch / JetFailed / ...) is compared with the return "
        "code of libsimplicity's evalTCOExpression called with anti-DoS flags CHECK_NONE and budget BUDGET_MAX "
        "(NO_ERROR / EXEC_ASSERT / EXEC_JET / ...) on the serialisation of the same program, with the same marshalled C "
        "environment (ElementsEnv::c_tx_env()).  Cases where C reports EXEC_MEMORY / EXEC_BUDGET (libsimplicity's CELLS_MAX / "
        "BUDGET_MAX) are outside the property and only counted; programs containing a fail node are refused by the C decoder "
        "and only counted.  The consensus run with all anti-DoS checks is executed too and only tallied.  Coq contributes "
        "(a) the classification through which verdicts are compared (Cdiff/VerdictRef.v: the kind code is injective, the Rust "
        "error enum maps injectively, exactly one C code maps to each of success / assertion / jet failure; the harness tables "
        "are compared with that reference on every run); (b) a THIRD PARTY for programs whose jets are specified in "
        "Jets/JetSpec.v (306 Core jets; their Elements namesakes are used): the verdict of the big-step semantics Core/Sem.v "
        "`eval` - success / assertion failure with the hidden CMR / fail node / jet failure - is computed with vm_compute for "
        "every case of a dedicated population (coverage.three_way_semantics) and compared with both evaluators (three-way; for "
        "assertion failures also the CMR carried by Rust's ReachedPrunedBranch); (c) theorems pinned in Props/C06.v that "
        "specialise C05's exec_correct to programs 1 -> 1: the MODEL of the Rust machine returns success iff eval does, returns "
        "ReachedPrunedBranch(cmr) / ReachedFailNode / JetFailed iff eval fails that way, and has no other outcome once "
        "for_program accepted the program - for any jet semantics respecting the jets' types, in particular the specified "
        "jets.  The C evaluator (TCO machine) and the C jets are not modelled: C stays tied by comparison only, and so do the "
        "introspection / hashing / signature jets, whose outputs only the C code defines (both evaluators call the same C "
        "functions there).  " + cc.CLASS_MAPPING_TEXT)
    vplib.proof_stage(rep, "Props/C06.v", extra_targets=["Cdiff/Run.vo", "Cdiff/EvalRef.vo"], translators=("xlate_consts.py",))
    rep.coverage["trusted_base"] = vplib.GENERIC_TRUSTED + [
        "vendored libsimplicity (evaluator and jets) compiled by simplicity-sys's build.rs, and the FFI declaration of evalTCOExpression in simplicity-sys/src/tests/ffi.rs (9 parameters, as in eval.h)",
        "harness_cdiff/src/env.rs: generator of Elements transactions (elements crate types) marshalled by ElementsEnv::new",
        "model Cdiff/VerdictRef.v written by hand from errorCodes.h / bit_machine::ExecutionError",
        "Core/Sem.v (big-step semantics), Core/Term.v, Core/Typing.v, Core/Machine.v (model of the Rust machine) and Jets/JetSpec.v "
        "(306 hand-written jet specifications) of the C05 family, imported read-only; final arrows and the CMRs of disconnected "
        "branches are taken from the implementation (harness `c06 info`) and handed to the semantics as data",
    ]
    lap("proof_stage_s")
    lim, lerr = cc.read_limits()
    if lerr:
        rep.violation("libsimplicity limits changed: " + lerr, {"limits": lim}, False)
    binary, out = vplib.harness_build("debug", crate=cc.CRATE)
    if binary is None:
        raise vplib.Infra("harness build failed:\n" + out[-3000:])
    lap("harness_build_s")
    wd = rep.workdir()
    quick = tier == "quick"
    progs, gstats = cc.typed_programs(rng.fork("gen"), binary, wd, 700 if quick else 9000, [1, 2, 2, 3, 3, 4],
                                      opts={"hidden": 25, "witness": 22})
    cases = corpus_cases()
    r2 = rng.fork("env")
    k = 0
    for p, ar, st in progs:
        feats = cc.prog_features(p)
        variants = [p]
        if feats["wit"] and r2.below(2):
            variants.append(pg.fill_witnesses(r2, st, ar))   # another witness value of every shape
        for v in variants:
            for _ in range(r2.choice([1, 2, 2, 3])):
                cases.append(Case("e%d" % k, "run", "%s %s" % (cc.rand_env(r2), pg.prog_pdl(v)), None, {"features": feats}))
                k += 1
    # probes: the verdict is known from the environment parameters alone
    r3 = rng.fork("probe")
    for j in range(60 if quick else 800):
        env = cc.rand_env(r3)
        if env == "dummy":
            continue
        for pdl, expect, name in cc.probe_cases(r3, env):
            cases.append(Case("p%d" % k, "run", "%s %s" % (env, pdl), None,
                              {"features": {"jets": 1}, "expect": expect, "probe": name}))
            k += 1
    # guard templates of the C05 family (core_common.guard_after_write_programs / guard_after_copy_programs) closed to
    # 1 -> 1 by `comp _ unit`: a write or copy primitive that spills over the end of its frame flips an assertion that runs
    # afterwards; the verdict is known by construction (every fourth program asserts one wrong bit)
    from props import core_common as core_cc
    r6 = rng.fork("guards")
    for j, (nodes, wrong) in enumerate(core_cc.guard_after_write_programs(r6, quick, True) + core_cc.guard_after_copy_programs(r6, quick, True)):
        nodes = list(nodes)
        nodes.append(("unit",))
        nodes.append(("comp", len(nodes) - 2, len(nodes) - 1))
        p = pg.compact_prog(nodes)
        cases.append(Case("g%d" % k, "run", "%s %s" % (cc.rand_env(r6), pg.prog_pdl(p)), None,
                          {"features": cc.prog_features(p), "expect": 1 if wrong else 0, "probe": "guard-after-write"}))
        k += 1
    # the disconnect templates (and a sample of the guards) once more BEHIND A SELECTOR and after SCRATCH WORK: a live frame of
    # 1 + kw bits puts every later frame off the byte boundary, and `comp <512 ones> unit` leaves released cells full of
    # ones where the frames of the template are allocated next (a byte-wise write that ORs into stale cells shows)
    r7 = rng.fork("behind")
    hid5 = "%064x" % 0x5eed
    wrapped = [(p_, e_, "disc-width") for p_, e_, _d in cc.disc_templates(rng.fork("disctmpl2"), 14 if quick else 200)]
    for j, (nodes, wrong) in enumerate(core_cc.guard_after_write_programs(r7, True, True)):
        if j % 6 == 0:
            m_ = list(nodes)
            m_.append(("unit",))
            m_.append(("comp", len(m_) - 2, len(m_) - 1))
            wrapped.append((m_, 1 if wrong else 0, "guard-after-write"))
    # delegation: the disconnect's left branch READS the commitment root of the right branch that the machine wrote
    # (byte-wise, Frame::write_u8) and compares it with the expected constant (eq_256 + verify); the root is hashed
    # from scratch in python (c09.RefCmr); half of the expectations are wrong by one bit (jet failure)
    from props import c09 as _c09
    rights = [[("unit",)], [("iden",)], [("unit",), ("unit",), ("pair", 0, 1)],
              [("unit",), ("injl", 0)], [("unit",), ("unit",), ("comp", 0, 1)]]
    for j in range(10 if quick else 60):
        rt = rights[j % len(rights)]
        cmr = _c09.RefCmr().table(rt, None)[-1]
        good = j % 3 != 2
        bits = [(byte >> (7 - i)) & 1 for byte in cmr for i in range(8)]
        if not good:
            bits[r7.below(256)] ^= 1
        m_ = list(rt)
        right = len(m_) - 1
        m_.append(("iden",))
        m_.append(("take", len(m_) - 1))
        committed = len(m_) - 1
        m_.append(("unit",))
        m_.append(("word", 8, bits))
        m_.append(("comp", len(m_) - 2, len(m_) - 1))
        m_.append(("pair", committed, len(m_) - 1))
        m_.append(("jet", "e", "eq_256"))
        m_.append(("comp", len(m_) - 2, len(m_) - 1))
        m_.append(("jet", "e", "verify"))
        m_.append(("comp", len(m_) - 2, len(m_) - 1))
        verified = len(m_) - 1
        m_.append(("unit",))
        m_.append(("pair", verified, len(m_) - 1))
        m_.append(("disc", len(m_) - 1, right))
        m_.append(("unit",))
        m_.append(("comp", len(m_) - 2, len(m_) - 1))
        wrapped.append((m_, 0 if good else 2, "delegation"))
        p = pg.compact_prog(m_)
        cases.append(Case("h%d" % k, "run", "%s %s" % (cc.rand_env(r7), pg.prog_pdl(p)), None,
                          {"features": cc.prog_features(p), "expect": 0 if good else 2, "probe": "delegation"}))
        k += 1
    for j, (nodes, expect, probe) in enumerate(wrapped):
        for kw in ((0, 6) if quick else (0, 2, 3, 6, 7)):
            for scratch in (False, True):
                m_ = list(nodes)
                body = len(m_) - 1
                if scratch:
                    m_.append(("word", 9, [1] * 512))
                    m_.append(("unit",))
                    m_.append(("comp", len(m_) - 2, len(m_) - 1))
                    m_.append(("comp", len(m_) - 1, body))
                    body = len(m_) - 1
                m_.append(("drop", body))
                m_.append(("drop", len(m_) - 1))
                child = len(m_) - 1                       # 1 * (W * 1) -> 1
                m_.append(("hid", hid5))
                m_.append(("case", len(m_) - 1, child))   # assertr
                br = len(m_) - 1
                m_.append(("unit",))
                m_.append(("injr", len(m_) - 1))
                ir = len(m_) - 1
                wk = core_cc.words_of_width(m_, kw, r7)
                m_.append(("unit",))
                m_.append(("pair", wk, len(m_) - 1))
                m_.append(("pair", ir, len(m_) - 1))
                m_.append(("comp", len(m_) - 1, br))
                p = pg.compact_prog(m_)
                cases.append(Case("h%d" % k, "run", "%s %s" % (cc.rand_env(r7), pg.prog_pdl(p)), None,
                                  {"features": cc.prog_features(p), "expect": expect, "probe": probe + "-behind-selector"}))
                k += 1
    lap("generation_s")
    # three-way population: programs over the Elements namesakes of the Core jets specified in Jets/JetSpec.v (plus words,
    # witnesses, assertions, disconnect); the verdict of Core/Sem.v eval is computed in Coq for every one of them
    sjl, core_ids, snotes = cc.specified_core_jets(binary, wd)
    if snotes["id_name_mismatch"]:
        rep.violation("jet ids of Jets/JetSpec.v do not match Core::ALL: %s" % snotes["id_name_mismatch"][:3], {"mismatch": snotes}, False)
    sprogs, sstats = cc.typed_programs(rng.fork("semgen"), binary, wd, 260 if quick else 4000, [1, 2, 2, 3, 3, 4],
                                       opts={"hidden": 30, "witness": 22, "disconnect": 20}, jetlist=sjl)
    r5 = rng.fork("semenv")
    semcases = []
    for p, ar, st in sprogs:
        if len(p) > 120:
            continue
        feats = cc.prog_features(p)
        variants = [p]
        if feats["wit"] and r5.below(2):
            variants.append(pg.fill_witnesses(r5, st, ar))
        for v in variants:
            semcases.append((v, feats, None, "sem-generated"))
    for p, expect, desc in cc.disc_templates(rng.fork("disctmpl"), 28 if quick else 400):
        semcases.append((p, cc.prog_features(p), expect, desc))
    info = vplib.run_harness(binary, "c06", ["i%d info %s" % (j, pg.prog_pdl(p)) for j, (p, _f, _e, _d) in enumerate(semcases)], workdir=wd)
    sem_exprs = []
    sem_case_list = []
    for j, (p, feats, expect, desc) in enumerate(semcases):
        inf = cc.parse_info(info.get("i%d" % j))
        if inf is None:
            bump("sem_info_failed")
            continue
        arrows, cmrs = inf
        if sum(cc.ty_tree_size(a[0]) + cc.ty_tree_size(a[1]) for a in arrows if a is not None) > 40000:
            bump("sem_skipped_types_too_large")
            continue
        meta = {"features": dict(feats, jets=max(1, feats.get("jets", 0))), "origin": desc}
        if expect is not None:
            meta["expect"] = expect
            meta["probe"] = "disc-width"
        c = Case("s%d" % k, "run", "%s %s" % (cc.rand_env(r5), pg.prog_pdl(p)), None, meta)
        k += 1
        cases.append(c)
        sem_case_list.append(c)
        sem_exprs.append(cc.sem_expr(p, arrows, cmrs, core_ids))
    import time
    t0 = time.time()
    # templates first, then the generated programs; evaluated in slices of 16 coqc processes within a time budget
    order = sorted(range(len(sem_exprs)), key=lambda i: (0 if "expect" in sem_case_list[i].meta else 1, i))
    svals_o, _retried = cc.ref_eval(cc.SEM_IMPORTS, [sem_exprs[i] for i in order], wd, "c06sem", batch=8 if quick else 24,
                                    timeout=600, budget_s=45 if quick else 480)
    n_sem = 0
    for i, v in zip(order, svals_o):
        if v is not None:
            sem_case_list[i].meta["sem"] = v
            n_sem += 1
    rep.coverage["three_way_semantics"] = {
        "cases": n_sem, "cases_generated": len(sem_case_list), "coq_eval_s": round(time.time() - t0, 1), "specified_jets": snotes,
        "time_budget": "evaluated in slices of 16 coqc processes, no new slice after %d s; cases not evaluated in Coq are still "
                       "compared Rust vs C" % (45 if quick else 480),
        "population": "generated well-typed 1->1 programs whose jets are the Elements namesakes (same name and types) of the %d Core jets "
                      "specified in coq/Jets/JetSpec.v, with words, witnesses (one or two fillings), assertions / hidden branches and "
                      "disconnect; plus disconnect templates with C and D of different widths whose result is compared with the "
                      "expected constant (verdict known: success / jet failure).  Every case is evaluated three ways: Core/Sem.v eval "
                      "(vm_compute), BitMachine::exec, evalTCOExpression; for assertion failures the hidden CMR reported by Rust is "
                      "compared with the one of the semantics" % snotes["specified_in_coq"],
        "generator": sstats}
    lap("semantics_in_coq_s")
    cases.append(Case("classes", "classes", "60", "run_classes 60", {}))
    impl, model = vplib.eval_cases(rep, binary, "c06", cases, IMPORTS, tag="c06")
    lap("evaluators_s")
    rep.coverage["timing"] = T
    pf, _ = vplib.decide(rep, cases, impl, model, prop_check, finding_match, nontrivial,
                         what="Rust Bit Machine vs libsimplicity evaluator (and class tables vs Cdiff/VerdictRef.v)")
    envh = {}
    for c in cases:
        d = c.meta.get("parsed")
        if d and d.get("env"):
            e = d["env"]
            for nm, v in zip(("inputs", "outputs", "pegins", "issuances", "confidential_outputs", "null_outputs", "annex", "taproot_path_len", "nonempty_rangeproofs"), e):
                key = "%s=%d" % (nm, v)
                envh[key] = envh.get(key, 0) + 1
    import re
    used = set()
    feat = {}
    for c in cases:
        if c.kind != "run":
            continue
        used.update(re.findall(r"jet\.e\.(\w+)", c.line))
        for fk, fv in c.meta.get("features", {}).items():
            if fv and fk != "nodes":
                feat["cases_with_" + fk] = feat.get("cases_with_" + fk, 0) + 1
    rep.coverage["distinct_jets_executed_or_reached"] = len(used)
    rep.coverage["feature_histogram"] = feat
    rep.coverage["generator"] = gstats
    rep.coverage["statistics"] = dict(sorted(STATS.items()))
    rep.coverage["environment_histogram"] = dict(sorted(envh.items()))
    rep.coverage["limits"] = lim
    rep.coverage["rule"] = (
        "cases = (generated well-typed 1->1 Elements program: jets of I/O width <= 600 bits as leaves, witnesses filled at the "
        "inferred types (one or two fillings), hidden branches / assertions, disconnect, words, DAG sharing) x (1-3 generated "
        "environments: 1-4 inputs and outputs, pegins, issuances / reissuances, explicit / confidential / null assets, values, "
        "nonces, annex absent / on the current input / on all inputs, lock times and sequences around the consensus thresholds, "
        "taproot path of 0-3 nodes, script CMR = CMR of the program); plus the three-way population (programs over the "
        "specified Core jets only, disconnect templates with C and D of different widths and a checked result).  "
        "distinct = distinct (environment, program) line; "
        "non-trivial = program with at least one jet, case, witness or disconnect that could be built")
    step = max(1, len(cases) // 5)
    rep.coverage["samples"] = [{"args": c.line[:300], "rust_kind": cc.EXEC_KIND.get((c.meta.get("parsed") or {}).get("rk")),
                                "c_kind": cc.EXEC_KIND.get((c.meta.get("parsed") or {}).get("ck")),
                                "cost": (c.meta.get("parsed") or {}).get("cost")} for c in cases[::step][:6]]
    vplib.finish_proof_verdict(rep, pf)
    rep.coverage["notes_on_the_code"] = cc.CODE_NOTES
    rep.assumptions += [
        "C verdicts EXEC_MEMORY / EXEC_BUDGET (libsimplicity limits) are outside the property; hits: %d" % STATS.get("outside_limits_c_memory_or_budget", 0),
        "programs with a fail node are refused by the C decoder (FAIL_CODE) and not compared; hits: %d" % STATS.get("fail_node_excluded", 0),
    ]


def replay(obj):
    import json
    print(json.dumps({k: v for k, v in obj.items() if k != "case"}, indent=1)[:3000])
    c = obj.get("case")
    if not c:
        return 0
    binary, _ = vplib.harness_build("debug", crate=cc.CRATE)
    case = Case(c["id"], c["kind"], c["harness_args"], None, c.get("meta"))
    wd = os.path.join(vplib.WORK, PROP)
    os.makedirs(wd, exist_ok=True)
    impl = vplib.run_harness(binary, "c06", ["%s %s %s" % (case.cid, case.kind, case.line)], workdir=wd)
    r = impl.get(case.cid)
    print("case          :", case.kind, case.line)
    print("implementation:", r if not isinstance(r, list) else r[:12])
    chk = prop_check(case, r)
    d = case.meta.get("parsed") or {}
    print("rust verdict  :", cc.EXEC_KIND.get(d.get("rk"), d.get("rk")))
    print("C verdict     :", cc.EXEC_KIND.get(d.get("ck"), d.get("ck")), "(raw -%s, pipeline stage %s)" % (d.get("craw"), d.get("cstage")))
    print("property      :", chk)
    return 0
