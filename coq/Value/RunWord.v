(* Executable entry point for the correspondence check of Word's derived ==, cmp, hash
   (C11, harness kind `wpair`): the pool machine of Value/Run.v, then Value::to_word on the
   selected entries and all ordered pairs of the resulting words. *)
From RS Require Import Lib.Tac Lib.Outcome Lib.Bits Lib.Sweep Ty.Ty Value.ValueModel Value.Run Value.ValueWord.
Import ListNotations.
Local Open Scope N_scope.

(* one ordered pair of words: ==, cmp (3 = the types differ), hash streams equal *)
Definition obs_wpair (a b : word) : res (list N) :=
  obind (w_eq a b) (fun e =>
  obind (w_cmp ty_cmp a b) (fun c =>
  obind (w_hash a) (fun ha =>
  obind (w_hash b) (fun hb =>
  Ok [b2n e;
      if ty_eqb (vty (w_value a)) (vty (w_value b)) then cmp_code c else 3;
      b2n (ty_eqb (fst (fst ha)) (fst (fst hb)) && list_beq Bool.eqb (snd (fst ha)) (snd (fst hb))
           && (snd ha =? snd hb))])))).

Fixpoint obs_wrow (a : word) (ws : list word) : res (list N) :=
  match ws with
  | [] => Ok []
  | b :: r => obind (obs_wpair a b) (fun x => obind (obs_wrow a r) (fun y => Ok (x ++ y)))
  end.

Fixpoint obs_wmatrix (rows ws : list word) : res (list N) :=
  match rows with
  | [] => Ok []
  | a :: r => obind (obs_wrow a ws) (fun x => obind (obs_wmatrix r ws) (fun y => Ok (x ++ y)))
  end.

Fixpoint words_of (vs : list value) : list word :=
  match vs with
  | [] => []
  | v :: r => match to_word v with Some w => w :: words_of r | None => words_of r end
  end.

(* kind wpair: status log, 777, for every selected value n + 1 (to_word = Some) or 0 (None),
   then the matrix over the words *)
Definition run_wpair (sel : list nat) (ops : list pop) : list N :=
  let '(pool, log) := run_ops [] ops [] in
  let vs := select pool sel in
  let ws := words_of vs in
  flat (obind (obs_wmatrix ws ws) (fun o =>
    Ok (log ++ 777 :: map (fun v => match to_word v with Some w => w_n w + 1 | None => 0 end) vs ++ o))).
