(* C04 - the constraints generated for a node (Constraints.node_tmpl) say exactly what the
   typing rule of its combinator says (Infer.check_node):
     node_tmpl_wf        what is appended is well-formed and in range
     node_tmpl_sound     every model of the new bounds + equations gives an arrow that passes the rule
     node_tmpl_complete  every arrow that passes the rule comes from a model extending the old one *)
From RS Require Import Lib.Tac Lib.Outcome Ty.Ty Core.Prog Infer.Constraints Infer.Unify Infer.Infer.
Import ListNotations.

(* ------------------------------------------------------------------ models of appended bounds *)

Fixpoint sat_list (al : valuation) (n : nat) (nb : list bnd) : Prop :=
  match nb with
  | [] => True
  | b :: r => holds al n b /\ sat_list al (S n) r
  end.

Lemma sat_list_app al : forall l n l',
  sat_list al n (l ++ l') <-> sat_list al n l /\ sat_list al (length l + n) l'.
Proof.
  induction l as [|b l IH]; intros n l'; cbn [app sat_list length Nat.add]; [tauto|].
  rewrite IH. rewrite <- Nat.add_succ_r. tauto.
Qed.

Lemma sat_list_nth al : forall nb n, sat_list al n nb <->
  (forall k, (k < length nb)%nat -> holds al (k + n) (nth k nb BFree)).
Proof.
  induction nb as [|b r IH]; intros n; cbn [sat_list length].
  - split; [intros _ k Hk; lia|auto].
  - rewrite IH. split.
    + intros [Hb Hr] [|k] Hk; [exact Hb|]. cbn [nth]. specialize (Hr k ltac:(lia)).
      rewrite Nat.add_succ_r in Hr. exact Hr.
    + intros H. split; [apply (H 0%nat); lia|]. intros k Hk. specialize (H (S k) ltac:(lia)).
      cbn [nth] in H. rewrite Nat.add_succ_r. exact H.
Qed.

Lemma sat_iff_list al s : sat al s <-> sat_list al 0 s.
Proof.
  rewrite sat_list_nth. unfold sat, sget. split; intros H k Hk.
  - rewrite Nat.add_0_r. apply H. exact Hk.
  - specialize (H k Hk). rewrite Nat.add_0_r in H. exact H.
Qed.

Lemma sat_app al s nb : sat al (s ++ nb) <-> sat al s /\ sat_list al (length s) nb.
Proof. rewrite !sat_iff_list, sat_list_app, Nat.add_0_r. tauto. Qed.

(* what may be appended: no links, children below len *)
Definition wf_new (len : nat) (b : bnd) : Prop :=
  match b with
  | BLink _ => False
  | BSum a b | BProd a b => (a < len)%nat /\ (b < len)%nat
  | _ => True
  end.

Lemma wf_new_mono len len' b : (len <= len')%nat -> wf_new len b -> wf_new len' b.
Proof. destruct b; cbn; lia. Qed.

Lemma Forall_wf_new_mono len len' l : (len <= len')%nat -> Forall (wf_new len) l -> Forall (wf_new len') l.
Proof. intros H. apply Forall_impl. intros b. apply wf_new_mono. exact H. Qed.

Lemma wf_app s nb : wf s -> Forall (wf_new (length nb + length s)) nb -> wf (s ++ nb).
Proof.
  intros W F v Hv. rewrite app_length in *.
  destruct (Nat.lt_ge_cases v (length s)) as [L|G].
  - rewrite sget_app_l by exact L. pose proof (W v L) as Wv. destruct (sget s v); cbn in *; lia.
  - replace v with (length s + (v - length s))%nat by lia. rewrite sget_app_r.
    rewrite Forall_forall in F. unfold sget.
    assert (I : In (nth (v - length s) nb BFree) nb) by (apply nth_In; lia).
    specialize (F _ I). destruct (nth (v - length s) nb BFree); cbn in *; try tauto; lia.
Qed.

Lemma holds_agree al al' len v b : (forall u, (u < len)%nat -> al' u = al u) -> (v < len)%nat ->
  wf_new len b -> holds al v b -> holds al' v b.
Proof.
  intros A Hv Wb H. destruct b as [|w| |a b|a b]; cbn in *; auto; try tauto.
  - rewrite A by exact Hv. exact H.
  - rewrite !A by tauto. exact H.
  - rewrite !A by tauto. exact H.
Qed.

Lemma sat_list_agree al al' len : (forall u, (u < len)%nat -> al' u = al u) ->
  forall nb n, Forall (wf_new len) nb -> (length nb + n <= len)%nat -> sat_list al n nb -> sat_list al' n nb.
Proof.
  intros A. induction nb as [|b r IH]; intros n F L H; [exact I|].
  cbn [sat_list length] in *. inversion F; subst. destruct H as [Hb Hr]. split.
  - eapply holds_agree; eauto. lia.
  - apply IH; auto. lia.
Qed.

Lemma sat_agree al al' s : wf s -> (forall u, (u < length s)%nat -> al' u = al u) -> sat al s -> sat al' s.
Proof.
  intros W A Sa v Hv. pose proof (W v Hv) as Wv. pose proof (Sa v Hv) as Sv.
  destruct (sget s v) as [|w| |a b|a b]; cbn in *; auto.
  - rewrite !A by lia. exact Sv.
  - rewrite A by lia. exact Sv.
  - rewrite !A by lia. exact Sv.
  - rewrite !A by lia. exact Sv.
Qed.

(* extending a valuation on fresh variables n, n+1, ... *)
Fixpoint ext (al : valuation) (n : nat) (vals : list ty) : valuation :=
  match vals with
  | [] => al
  | t :: r => fun v => if Nat.eqb v n then t else ext al (S n) r v
  end.

Lemma ext_below al : forall vals n v, (v < n)%nat -> ext al n vals v = al v.
Proof.
  induction vals as [|t r IH]; intros n v H; cbn [ext]; [reflexivity|].
  destruct (Nat.eqb_spec v n); [lia|]. apply IH. lia.
Qed.

Ltac eqb_lia :=
  repeat match goal with
         | |- context [Nat.eqb ?a ?b] =>
             first [ replace (Nat.eqb a b) with true by (symmetry; apply Nat.eqb_eq; lia)
                   | replace (Nat.eqb a b) with false by (symmetry; apply Nat.eqb_neq; lia) ]
         end.

Ltac teq :=
  repeat match goal with
         | H : (_ && _)%bool = true |- _ => apply andb_true_iff in H; destruct H
         | H : ty_eqb _ _ = true |- _ => apply ty_eqb_eq in H
         end.

Lemma ty_eqb_refl t : ty_eqb t t = true.
Proof. apply ty_eqb_eq. reflexivity. Qed.

(* ------------------------------------------------------------------ ground types in the store *)

Lemma walloc_length k n : length (fst (walloc k n)) = (k + 2)%nat /\ snd (walloc k n) = (k + 1 + n)%nat.
Proof.
  induction k as [|k [IH1 IH2]]; [cbn; split; reflexivity|].
  cbn [walloc]. destruct (walloc k n) as [l r]. cbn [fst snd] in *.
  rewrite app_length. cbn [length]. split; lia.
Qed.

Lemma walloc_wf k n : Forall (wf_new (k + 2 + n)) (fst (walloc k n)).
Proof.
  induction k as [|k IH].
  - cbn. constructor; [exact I|]. constructor; [cbn; lia|constructor].
  - pose proof (walloc_length k n) as [L R]. cbn [walloc]. destruct (walloc k n) as [l r]. cbn [fst snd] in *.
    apply Forall_app. split.
    + eapply Forall_wf_new_mono; [|exact IH]. lia.
    + constructor; [cbn; lia|constructor].
Qed.

Lemma walloc_sat k : forall n al, sat_list al n (fst (walloc k n)) -> al (snd (walloc k n)) = word_ty k.
Proof.
  induction k as [|k IH]; intros n al H.
  - cbn in *. destruct H as (H0 & H1 & _). rewrite H1, H0. reflexivity.
  - pose proof (walloc_length k n) as [L R]. specialize (IH n al).
    cbn [walloc] in *. destruct (walloc k n) as [l r]. cbn [fst snd] in *.
    apply sat_list_app in H. destruct H as [Hl Hr]. cbn [sat_list holds] in Hr.
    destruct Hr as [Hr _]. rewrite Hr, (IH Hl). reflexivity.
Qed.

Lemma walloc_complete k : forall n al, exists al',
  (forall v, (v < n)%nat -> al' v = al v) /\ sat_list al' n (fst (walloc k n)).
Proof.
  induction k as [|k IH]; intros n al.
  - exists (ext al n [One; Sum One One]). split; [intros v H; apply ext_below; exact H|].
    cbn [walloc fst sat_list holds ext Nat.add]. eqb_lia. auto.
  - destruct (IH n al) as (al1 & A1 & S1).
    pose proof (walloc_length k n) as [L R]. pose proof (walloc_wf k n) as Wl.
    pose proof (walloc_sat k n al1 S1) as V.
    cbn [walloc]. destruct (walloc k n) as [l r]. cbn [fst snd] in *.
    exists (fun v => if Nat.eqb v (length l + n) then Prod (word_ty k) (word_ty k) else al1 v).
    split.
    + intros v H. destruct (Nat.eqb_spec v (length l + n)); [lia|]. apply A1. exact H.
    + apply sat_list_app. split.
      * eapply (sat_list_agree al1 _ (length l + n)); [| |lia|exact S1].
        -- intros u Hu. destruct (Nat.eqb_spec u (length l + n)); [lia|reflexivity].
        -- eapply Forall_wf_new_mono; [|exact Wl]. lia.
      * cbn [sat_list holds]. split; [|exact I]. rewrite Nat.eqb_refl.
        destruct (Nat.eqb_spec r (length l + n)); [lia|]. rewrite V. reflexivity.
Qed.

Lemma galloc_length g : forall n, (snd (galloc g n) < length (fst (galloc g n)) + n)%nat /\
  (0 < length (fst (galloc g n)))%nat.
Proof.
  induction g as [|a IHa b IHb|a IHa b IHb|k]; intros n.
  - cbn. lia.
  - cbn [galloc]. specialize (IHa n). destruct (galloc a n) as [l1 r1].
    specialize (IHb (length l1 + n)%nat). destruct (galloc b (length l1 + n)) as [l2 r2].
    cbn [fst snd] in *. rewrite !app_length. cbn [length]. lia.
  - cbn [galloc]. specialize (IHa n). destruct (galloc a n) as [l1 r1].
    specialize (IHb (length l1 + n)%nat). destruct (galloc b (length l1 + n)) as [l2 r2].
    cbn [fst snd] in *. rewrite !app_length. cbn [length]. lia.
  - cbn [galloc]. pose proof (walloc_length k n) as [L R]. lia.
Qed.

Lemma galloc_wf g : forall n, Forall (wf_new (length (fst (galloc g n)) + n)) (fst (galloc g n)).
Proof.
  induction g as [|a IHa b IHb|a IHa b IHb|k]; intros n.
  - cbn. constructor; [exact I|constructor].
  - cbn [galloc]. specialize (IHa n). pose proof (galloc_length a n) as La. destruct (galloc a n) as [l1 r1].
    specialize (IHb (length l1 + n)%nat). pose proof (galloc_length b (length l1 + n)) as Lb.
    destruct (galloc b (length l1 + n)) as [l2 r2]. cbn [fst snd] in *.
    rewrite !app_length. cbn [length]. apply Forall_app. split; [|apply Forall_app; split].
    + eapply Forall_wf_new_mono; [|exact IHa]. lia.
    + eapply Forall_wf_new_mono; [|exact IHb]. lia.
    + constructor; [cbn; lia|constructor].
  - cbn [galloc]. specialize (IHa n). pose proof (galloc_length a n) as La. destruct (galloc a n) as [l1 r1].
    specialize (IHb (length l1 + n)%nat). pose proof (galloc_length b (length l1 + n)) as Lb.
    destruct (galloc b (length l1 + n)) as [l2 r2]. cbn [fst snd] in *.
    rewrite !app_length. cbn [length]. apply Forall_app. split; [|apply Forall_app; split].
    + eapply Forall_wf_new_mono; [|exact IHa]. lia.
    + eapply Forall_wf_new_mono; [|exact IHb]. lia.
    + constructor; [cbn; lia|constructor].
  - cbn [galloc]. pose proof (walloc_length k n) as [L R]. rewrite L. apply walloc_wf.
Qed.

Lemma galloc_sat g : forall n al, sat_list al n (fst (galloc g n)) -> al (snd (galloc g n)) = gty_ty g.
Proof.
  induction g as [|a IHa b IHb|a IHa b IHb|k]; intros n al H.
  - cbn in *. tauto.
  - cbn [galloc gty_ty] in *. specialize (IHa n al). destruct (galloc a n) as [l1 r1].
    specialize (IHb (length l1 + n)%nat al). destruct (galloc b (length l1 + n)) as [l2 r2]. cbn [fst snd] in *.
    apply sat_list_app in H. destruct H as [H1 H]. apply sat_list_app in H. destruct H as [H2 H3].
    cbn [sat_list holds] in H3. destruct H3 as [H3 _]. rewrite H3, (IHa H1), (IHb H2). reflexivity.
  - cbn [galloc gty_ty] in *. specialize (IHa n al). destruct (galloc a n) as [l1 r1].
    specialize (IHb (length l1 + n)%nat al). destruct (galloc b (length l1 + n)) as [l2 r2]. cbn [fst snd] in *.
    apply sat_list_app in H. destruct H as [H1 H]. apply sat_list_app in H. destruct H as [H2 H3].
    cbn [sat_list holds] in H3. destruct H3 as [H3 _]. rewrite H3, (IHa H1), (IHb H2). reflexivity.
  - cbn [galloc gty_ty] in *. apply walloc_sat. exact H.
Qed.

Lemma galloc_complete g : forall n al, exists al',
  (forall v, (v < n)%nat -> al' v = al v) /\ sat_list al' n (fst (galloc g n)).
Proof.
  induction g as [|a IHa b IHb|a IHa b IHb|k]; intros n al.
  - exists (ext al n [One]). split; [intros v H; apply ext_below; exact H|].
    cbn [galloc fst sat_list holds ext]. eqb_lia. auto.
  - destruct (IHa n al) as (al1 & A1 & S1).
    pose proof (galloc_length a n) as La. pose proof (galloc_wf a n) as Wa.
    pose proof (galloc_sat a n) as Va.
    cbn [galloc]. destruct (galloc a n) as [l1 r1]. cbn [fst snd] in *.
    destruct (IHb (length l1 + n)%nat al1) as (al2 & A2 & S2).
    pose proof (galloc_length b (length l1 + n)) as Lb. pose proof (galloc_wf b (length l1 + n)) as Wb.
    pose proof (galloc_sat b (length l1 + n)) as Vb.
    destruct (galloc b (length l1 + n)) as [l2 r2]. cbn [fst snd] in *.
    assert (S1' : sat_list al2 n l1).
    { eapply (sat_list_agree al1 _ (length l1 + n)); [exact A2|exact Wa|lia|exact S1]. }
    set (root := (length l2 + (length l1 + n))%nat).
    exists (fun v => if Nat.eqb v root then Sum (gty_ty a) (gty_ty b) else al2 v).
    assert (Ag : forall u, (u < root)%nat -> (if Nat.eqb u root then Sum (gty_ty a) (gty_ty b) else al2 u) = al2 u).
    { intros u Hu. destruct (Nat.eqb_spec u root); [lia|reflexivity]. }
    split.
    + intros v H. rewrite Ag by (unfold root; lia). rewrite A2 by lia. apply A1. exact H.
    + apply sat_list_app. split; [|apply sat_list_app; split].
      * eapply (sat_list_agree al2 _ root); [exact Ag| |unfold root; lia|exact S1'].
        eapply Forall_wf_new_mono; [|exact Wa]. unfold root. lia.
      * eapply (sat_list_agree al2 _ root); [exact Ag|exact Wb|unfold root; lia|exact S2].
      * cbn [sat_list holds]. split; [|exact I]. fold root. rewrite Nat.eqb_refl.
        rewrite !Ag by (unfold root; lia). rewrite (Va al2 S1'), (Vb al2 S2). reflexivity.
  - destruct (IHa n al) as (al1 & A1 & S1).
    pose proof (galloc_length a n) as La. pose proof (galloc_wf a n) as Wa.
    pose proof (galloc_sat a n) as Va.
    cbn [galloc]. destruct (galloc a n) as [l1 r1]. cbn [fst snd] in *.
    destruct (IHb (length l1 + n)%nat al1) as (al2 & A2 & S2).
    pose proof (galloc_length b (length l1 + n)) as Lb. pose proof (galloc_wf b (length l1 + n)) as Wb.
    pose proof (galloc_sat b (length l1 + n)) as Vb.
    destruct (galloc b (length l1 + n)) as [l2 r2]. cbn [fst snd] in *.
    assert (S1' : sat_list al2 n l1).
    { eapply (sat_list_agree al1 _ (length l1 + n)); [exact A2|exact Wa|lia|exact S1]. }
    set (root := (length l2 + (length l1 + n))%nat).
    exists (fun v => if Nat.eqb v root then Prod (gty_ty a) (gty_ty b) else al2 v).
    assert (Ag : forall u, (u < root)%nat -> (if Nat.eqb u root then Prod (gty_ty a) (gty_ty b) else al2 u) = al2 u).
    { intros u Hu. destruct (Nat.eqb_spec u root); [lia|reflexivity]. }
    split.
    + intros v H. rewrite Ag by (unfold root; lia). rewrite A2 by lia. apply A1. exact H.
    + apply sat_list_app. split; [|apply sat_list_app; split].
      * eapply (sat_list_agree al2 _ root); [exact Ag| |unfold root; lia|exact S1'].
        eapply Forall_wf_new_mono; [|exact Wa]. unfold root. lia.
      * eapply (sat_list_agree al2 _ root); [exact Ag|exact Wb|unfold root; lia|exact S2].
      * cbn [sat_list holds]. split; [|exact I]. fold root. rewrite Nat.eqb_refl.
        rewrite !Ag by (unfold root; lia). rewrite (Va al2 S1'), (Vb al2 S2). reflexivity.
  - cbn [galloc]. apply walloc_complete.
Qed.

(* ------------------------------------------------------------------ per-node lemmas *)

Definition arr_in (n : nat) (ar : list (option varrow)) : Prop :=
  forall c x y, arr_of ar c = Some (x, y) -> (x < n)%nat /\ (y < n)%nat.

Ltac dmatch H :=
  repeat match type of H with
         | context [match arr_of ?ar ?c with _ => _ end] =>
             let E := fresh "E" in destruct (arr_of ar c) as [[? ?]|] eqn:E; try discriminate H
         | context [match jet_lookup ?jt ?f ?i with _ => _ end] =>
             let E := fresh "E" in destruct (jet_lookup jt f i) as [[? ?]|] eqn:E; try discriminate H
         | context [if ?b then _ else _] =>
             let E := fresh "E" in destruct b eqn:E; try discriminate H
         end.

Ltac fa := repeat (apply Forall_cons; [cbn [wf_new length Nat.add]; try exact I; lia|]); try apply Forall_nil.

Ltac eqs_in_tac :=
  let x := fresh "x" in let y := fresh "y" in let Hin := fresh "Hin" in
  intros x y Hin; cbn [In app] in Hin;
  repeat (destruct Hin as [Hin|Hin]; [injection Hin as <- <-; cbn [length Nat.add]; lia|]);
  try destruct Hin.

Ltac arr_tac :=
  let x := fresh "x" in let y := fresh "y" in let Ha := fresh "Ha" in
  intros x y Ha; first [discriminate Ha | injection Ha as <- <-; cbn [length Nat.add]; lia].

Ltac use_arr_in A :=
  repeat match goal with
         | E : arr_of _ _ = Some (_, _) |- _ => let B := fresh "B" in pose proof (A _ _ _ E) as B; revert E
         end; intros.

Lemma node_tmpl_wf jt n ar nd nb ne a : arr_in n ar -> node_tmpl jt n ar nd = Some (nb, ne, a) ->
  Forall (wf_new (length nb + n)) nb /\ eqs_in (length nb + n) ne /\
  (forall x y, a = Some (x, y) -> (x < length nb + n)%nat /\ (y < length nb + n)%nat).
Proof.
  intros A H. destruct nd; cbn [node_tmpl] in H.
  - injection H as <- <- <-. split; [fa|split; [eqs_in_tac|arr_tac]].
  - injection H as <- <- <-. split; [fa|split; [eqs_in_tac|arr_tac]].
  - dmatch H. injection H as <- <- <-. use_arr_in A. split; [fa|split; [eqs_in_tac|arr_tac]].
  - dmatch H. injection H as <- <- <-. use_arr_in A. split; [fa|split; [eqs_in_tac|arr_tac]].
  - dmatch H. injection H as <- <- <-. use_arr_in A. split; [fa|split; [eqs_in_tac|arr_tac]].
  - dmatch H. injection H as <- <- <-. use_arr_in A. split; [fa|split; [eqs_in_tac|arr_tac]].
  - dmatch H. injection H as <- <- <-. use_arr_in A. split; [fa|split; [eqs_in_tac|arr_tac]].
  - (* case *)
    dmatch H; injection H as <- <- <-; use_arr_in A; (split; [fa|split; [eqs_in_tac|arr_tac]]).
  - dmatch H. injection H as <- <- <-. use_arr_in A. split; [fa|split; [eqs_in_tac|arr_tac]].
  - (* disconnect *)
    destruct (arr_of ar l) as [[ls lt]|] eqn:El; [|discriminate].
    assert (exists pre c d, (length pre <= 2)%nat /\ Forall (wf_new (length pre + n)) pre /\
              (c < length pre + n)%nat /\ (d < length pre + n)%nat /\
              (let m := (length pre + n)%nat in
               let '(wl, w) := walloc 8 (2 + m) in
               let q := (length wl + (2 + m))%nat in
               Some (pre ++ [BFree; BFree] ++ wl ++ [BProd w m; BProd (1 + m) c; BProd (1 + m) d],
                     [(ls, q); (lt, 1 + q)], Some (m, 2 + q)) = Some (nb, ne, a)))
      as (pre & c & d & Lp & Wp & Lc & Ld & H').
    { destruct r as [r|].
      - destruct (arr_of ar r) as [[rs rt]|] eqn:Er; [|discriminate].
        destruct (A _ _ _ Er). exists [], rs, rt. cbn [length Nat.add]. repeat split; auto.
      - exists [BFree; BFree], n, (1 + n)%nat. cbn [length Nat.add]. repeat split; auto; try lia. fa. }
    clear H. cbn zeta in H'. pose proof (walloc_length 8 (2 + (length pre + n))) as [Lw Rw].
    pose proof (walloc_wf 8 (2 + (length pre + n))) as Ww.
    destruct (walloc 8 (2 + (length pre + n))) as [wl w]. cbn [fst snd] in *.
    injection H' as <- <- <-. destruct (A _ _ _ El).
    rewrite !app_length. cbn [length]. rewrite !app_length. cbn [length]. rewrite Lw.
    split; [|split; [eqs_in_tac|arr_tac]].
    apply Forall_app. split; [eapply Forall_wf_new_mono; [|exact Wp]; lia|].
    apply Forall_cons; [exact I|]. apply Forall_cons; [exact I|].
    apply Forall_app. split; [eapply Forall_wf_new_mono; [|exact Ww]; lia|]. fa.
  - injection H as <- <- <-. split; [fa|split; [eqs_in_tac|arr_tac]].
  - injection H as <- <- <-. split; [fa|split; [eqs_in_tac|arr_tac]].
  - (* jet *)
    dmatch H.
    pose proof (galloc_length g n) as L1. pose proof (galloc_wf g n) as W1.
    destruct (galloc g n) as [l1 r1]. cbn [fst snd] in *.
    pose proof (galloc_length g0 (length l1 + n)) as L2. pose proof (galloc_wf g0 (length l1 + n)) as W2.
    destruct (galloc g0 (length l1 + n)) as [l2 r2]. cbn [fst snd] in *.
    injection H as <- <- <-. rewrite app_length. split; [|split; [eqs_in_tac|arr_tac]].
    apply Forall_app. split; [eapply Forall_wf_new_mono; [|exact W1]; lia|].
    eapply Forall_wf_new_mono; [|exact W2]. lia.
  - (* word *)
    dmatch H. pose proof (walloc_length n0 (1 + n)) as [Lw Rw]. pose proof (walloc_wf n0 (1 + n)) as Ww.
    destruct (walloc n0 (1 + n)) as [wl w]. cbn [fst snd] in *.
    injection H as <- <- <-. cbn [length]. rewrite Lw. split; [|split; [eqs_in_tac|arr_tac]].
    apply Forall_cons; [exact I|]. eapply Forall_wf_new_mono; [|exact Ww]. lia.
  - injection H as <- <- <-. split; [fa|split; [eqs_in_tac|arr_tac]].
Qed.

Definition img (al : valuation) (a : option varrow) : option tarrow :=
  match a with Some (x, y) => Some (al x, al y) | None => None end.

Lemma arr_of_img al ar c :
  arr_of (map (img al) ar) c = match arr_of ar c with Some (x, y) => Some (al x, al y) | None => None end.
Proof.
  unfold arr_of. rewrite nth_error_map. destruct (nth_error ar c) as [[[x y]|]|]; reflexivity.
Qed.

Lemma hidden_at_img al ar c : hidden_at (map (img al) ar) c = hidden_at ar c.
Proof.
  unfold hidden_at. rewrite nth_error_map. destruct (nth_error ar c) as [[[x y]|]|]; reflexivity.
Qed.

Ltac rw_defs al :=
  repeat match goal with
         | H : al _ = Sum _ _ |- _ => rewrite H
         | H : al _ = Prod _ _ |- _ => rewrite H
         | H : al _ = One |- _ => rewrite H
         end.

Ltac split_and := repeat (apply andb_true_iff; split).

Ltac eq_facts al Eq :=
  repeat match type of Eq with
         | eqs_hold al ((?x, ?y) :: ?r) =>
             let F := fresh "F" in
             assert (F : al x = al y) by (apply Eq; left; reflexivity);
             let Eq' := fresh "Eq" in
             assert (Eq' : eqs_hold al r) by (intros ? ? ?; apply Eq; right; assumption);
             clear Eq; rename Eq' into Eq
         end.

Lemma node_tmpl_sound jt n ar nd nb ne a al :
  node_tmpl jt n ar nd = Some (nb, ne, a) -> sat_list al n nb -> eqs_hold al ne ->
  check_node jt (map (img al) ar) nd (img al a) = true.
Proof.
  intros H Sl Eq. destruct nd; cbn [node_tmpl] in H.
  - injection H as <- <- <-. cbn [check_node img]. apply ty_eqb_refl.
  - injection H as <- <- <-. cbn [sat_list holds Nat.add] in Sl. cbn [check_node img Nat.add].
    destruct Sl as (_ & -> & _). reflexivity.
  - dmatch H. injection H as <- <- <-. cbn [sat_list holds Nat.add] in Sl. destruct Sl as (_ & S1 & _).
    cbn [check_node img Nat.add]. rewrite arr_of_img, E, S1, !ty_eqb_refl. reflexivity.
  - dmatch H. injection H as <- <- <-. cbn [sat_list holds Nat.add] in Sl. destruct Sl as (_ & S1 & _).
    cbn [check_node img Nat.add]. rewrite arr_of_img, E, S1, !ty_eqb_refl. reflexivity.
  - dmatch H. injection H as <- <- <-. cbn [sat_list holds Nat.add] in Sl. destruct Sl as (_ & S1 & _).
    cbn [check_node img Nat.add]. rewrite arr_of_img, E, S1, !ty_eqb_refl. reflexivity.
  - dmatch H. injection H as <- <- <-. cbn [sat_list holds Nat.add] in Sl. destruct Sl as (_ & S1 & _).
    cbn [check_node img Nat.add]. rewrite arr_of_img, E, S1, !ty_eqb_refl. reflexivity.
  - dmatch H. injection H as <- <- <-. eq_facts al Eq.
    cbn [check_node img]. rewrite !arr_of_img, E, E0, F, !ty_eqb_refl. reflexivity.
  - (* case *)
    cbn [check_node]. rewrite !arr_of_img, !hidden_at_img.
    dmatch H; injection H as <- <- <-; cbn [sat_list holds Nat.add] in Sl;
      destruct Sl as (_ & _ & _ & S3 & S4 & _ & S6 & S7 & _); cbn [app] in Eq; eq_facts al Eq;
      cbn [img Nat.add]; rewrite S4, S3; cbn [negb andb];
      split_and; try reflexivity; apply ty_eqb_eq; congruence.
  - dmatch H. injection H as <- <- <-. cbn [sat_list holds] in Sl. destruct Sl as (S0 & _). eq_facts al Eq.
    cbn [check_node img]. rewrite !arr_of_img, E, E0, S0, F, !ty_eqb_refl. reflexivity.
  - (* disconnect *)
    destruct (arr_of ar l) as [[ls lt]|] eqn:El; [|discriminate].
    assert (exists pre c d,
              (match r with
               | Some r => arr_of ar r = Some (c, d) /\ pre = []
               | None => True
               end) /\
              (let m := (length pre + n)%nat in
               let '(wl, w) := walloc 8 (2 + m) in
               let q := (length wl + (2 + m))%nat in
               Some (pre ++ [BFree; BFree] ++ wl ++ [BProd w m; BProd (1 + m) c; BProd (1 + m) d],
                     [(ls, q); (lt, 1 + q)], Some (m, 2 + q)) = Some (nb, ne, a)))
      as (pre & c & d & Hr & H').
    { destruct r as [r|].
      - destruct (arr_of ar r) as [[rs rt]|] eqn:Er; [|discriminate]. exists [], rs, rt. auto.
      - exists [BFree; BFree], n, (1 + n)%nat. auto. }
    clear H. cbn zeta in H'. pose proof (walloc_length 8 (2 + (length pre + n))) as [Lw Rw].
    pose proof (walloc_sat 8 (2 + (length pre + n)) al) as Vw.
    destruct (walloc 8 (2 + (length pre + n))) as [wl w]. cbn [fst snd] in *.
    injection H' as <- <- <-.
    apply sat_list_app in Sl. destruct Sl as [_ Sl].
    cbn [app sat_list] in Sl. destruct Sl as (_ & _ & Sl).
    apply sat_list_app in Sl. destruct Sl as [Sw Sl]. specialize (Vw Sw).
    cbn [sat_list holds] in Sl. destruct Sl as (S1 & S2 & S3 & _).
    eq_facts al Eq. cbn [Nat.add] in *.
    cbn [check_node img]. rewrite !arr_of_img, El.
    replace (al lt) with (Prod (al (S (length pre + n))) (al c)) by congruence.
    replace (al (S (S (length wl + S (S (length pre + n)))))) with (Prod (al (S (length pre + n))) (al d)) by congruence.
    replace (al ls) with (Prod (word_ty 8) (al (length pre + n))) by congruence.
    rewrite !ty_eqb_refl. cbn [andb].
    destruct r as [r|]; [|reflexivity]. destruct Hr as [Er _]. rewrite arr_of_img, Er, !ty_eqb_refl. reflexivity.
  - injection H as <- <- <-. reflexivity.
  - injection H as <- <- <-. reflexivity.
  - (* jet *)
    cbn [check_node]. dmatch H.
    pose proof (galloc_sat g n al) as V1. destruct (galloc g n) as [l1 r1]. cbn [fst snd] in *.
    pose proof (galloc_sat g0 (length l1 + n) al) as V2.
    destruct (galloc g0 (length l1 + n)) as [l2 r2]. cbn [fst snd] in *.
    injection H as <- <- <-. apply sat_list_app in Sl. destruct Sl as [S1 S2].
    cbn [img]. rewrite (V1 S1), (V2 S2), !ty_eqb_refl. reflexivity.
  - (* word *)
    cbn [check_node]. dmatch H. pose proof (walloc_sat n0 (1 + n) al) as V.
    destruct (walloc n0 (1 + n)) as [wl w]. cbn [fst snd] in *.
    injection H as <- <- <-. cbn [sat_list holds] in Sl. destruct Sl as [S0 S1].
    cbn [img]. rewrite S0, (V S1), !ty_eqb_refl. reflexivity.
  - injection H as <- <- <-. reflexivity.
Qed.

(* ------------------------------------------------------------------ completeness per node *)

Ltac subst_vars :=
  repeat match goal with
         | H : ?x = _ |- _ => is_var x; subst x
         | H : _ = ?x |- _ => is_var x; subst x
         end.

Ltac eqs_ext_tac :=
  let x := fresh "x" in let y := fresh "y" in let Hin := fresh "Hin" in
  intros x y Hin; cbn [In app] in Hin;
  repeat (destruct Hin as [Hin|Hin];
          [injection Hin as <- <-; cbn [ext Nat.add]; eqb_lia; try reflexivity; congruence|]);
  try destruct Hin.

Ltac fin_ext :=
  split; [reflexivity|];
  split; [intros ? ?; apply ext_below; assumption|];
  split; [cbn [sat_list holds ext Nat.add]; eqb_lia; repeat split; try reflexivity; try congruence|];
  split; [eqs_ext_tac | cbn [img ext Nat.add]; eqb_lia; try reflexivity; congruence].

Lemma sat_list_free al : forall nb n, Forall (fun b => b = BFree) nb -> sat_list al n nb.
Proof.
  induction nb as [|b r IH]; intros n F; [exact I|]. inversion F; subst. cbn. split; [exact I|apply IH; assumption].
Qed.

Lemma node_tmpl_complete jt n ar nd al own :
  arr_in n ar ->
  check_node jt (map (img al) ar) nd own = true ->
  exists nb ne a al', node_tmpl jt n ar nd = Some (nb, ne, a) /\
     (forall v, (v < n)%nat -> al' v = al v) /\ sat_list al' n nb /\ eqs_hold al' ne /\ img al' a = own.
Proof.
  intros A C. destruct nd; cbn [check_node] in C; rewrite ?arr_of_img, ?hidden_at_img in C; cbn [node_tmpl].
  - (* iden *)
    destruct own as [[A0 B0]|]; [|discriminate]. teq. subst_vars.
    exists [BFree], [], (Some (n, n)), (ext al n [B0]). fin_ext.
  - (* unit *)
    destruct own as [[A0 B0]|]; [|discriminate]. teq. subst_vars.
    exists [BFree; BOne], [], (Some (n, (1 + n)%nat)), (ext al n [A0; One]). fin_ext.
  - (* injl *)
    destruct own as [[A0 B0]|]; [|discriminate].
    destruct (arr_of ar c) as [[cs ct]|] eqn:E; [|discriminate]. destruct B0 as [|B1 B2|]; try discriminate.
    teq. subst_vars. use_arr_in A.
    exists [BFree; BSum ct n], [], (Some (cs, (1 + n)%nat)), (ext al n [B2; Sum (al ct) B2]). fin_ext.
  - (* injr *)
    destruct own as [[A0 B0]|]; [|discriminate].
    destruct (arr_of ar c) as [[cs ct]|] eqn:E; [|discriminate]. destruct B0 as [|B1 B2|]; try discriminate.
    teq. subst_vars. use_arr_in A.
    exists [BFree; BSum n ct], [], (Some (cs, (1 + n)%nat)), (ext al n [B1; Sum B1 (al ct)]). fin_ext.
  - (* take *)
    destruct own as [[A0 B0]|]; [|discriminate].
    destruct (arr_of ar c) as [[cs ct]|] eqn:E; [|discriminate]. destruct A0 as [| |A1 A2]; try discriminate.
    teq. subst_vars. use_arr_in A.
    exists [BFree; BProd cs n], [], (Some ((1 + n)%nat, ct)), (ext al n [A2; Prod (al cs) A2]). fin_ext.
  - (* drop *)
    destruct own as [[A0 B0]|]; [|discriminate].
    destruct (arr_of ar c) as [[cs ct]|] eqn:E; [|discriminate]. destruct A0 as [| |A1 A2]; try discriminate.
    teq. subst_vars. use_arr_in A.
    exists [BFree; BProd n cs], [], (Some ((1 + n)%nat, ct)), (ext al n [A1; Prod A1 (al cs)]). fin_ext.
  - (* comp *)
    destruct own as [[A0 B0]|]; [|discriminate].
    destruct (arr_of ar l) as [[ls lt]|] eqn:El; [|discriminate].
    destruct (arr_of ar r) as [[rs rt]|] eqn:Er; [|discriminate].
    teq. subst_vars. use_arr_in A.
    exists [], [(lt, rs)], (Some (ls, rt)), (ext al n []). fin_ext.
  - (* case *)
    destruct own as [[A0 B0]|]; [|discriminate].
    destruct A0 as [| |A1 c0]; try discriminate. destruct A1 as [|a0 b0|]; try discriminate.
    set (vals := [a0; b0; c0; Sum a0 b0; Prod (Sum a0 b0) c0; B0; Prod a0 c0; Prod b0 c0]).
    assert (NH : forall c x, arr_of ar c = Some x -> hidden_at ar c = false).
    { intros c x. unfold arr_of, hidden_at. destruct (nth_error ar c) as [[?|]|]; congruence. }
    destruct (arr_of ar l) as [[ls lt]|] eqn:El; destruct (arr_of ar r) as [[rs rt]|] eqn:Er;
      try rewrite (NH _ _ El) in *; try rewrite (NH _ _ Er) in *;
      try (destruct (hidden_at ar l) eqn:Hl); try (destruct (hidden_at ar r) eqn:Hr);
      cbn [negb andb] in C; try discriminate; teq; try discriminate;
      use_arr_in A; eexists _, _, _, (ext al n vals); unfold vals; fin_ext.
  - (* pair *)
    destruct own as [[A0 B0]|]; [|discriminate].
    destruct (arr_of ar l) as [[ls lt]|] eqn:El; [|discriminate].
    destruct (arr_of ar r) as [[rs rt]|] eqn:Er; [|discriminate].
    destruct B0 as [| |C1 C2]; try discriminate.
    teq. subst_vars. use_arr_in A.
    exists [BProd lt rt], [(ls, rs)], (Some (ls, n)), (ext al n [Prod (al lt) (al rt)]). fin_ext.
  - (* disconnect *)
    destruct own as [[A0 B0]|]; [|discriminate].
    destruct (arr_of ar l) as [[ls lt]|] eqn:El; [|discriminate].
    destruct (al lt) as [| |b1 c1] eqn:Elt; try discriminate. destruct B0 as [| |b0 d0]; try discriminate.
    apply andb_true_iff in C. destruct C as [C Cr]. teq. subst b1.
    (* the right arrow (c, d): pre-bounds, their values *)
    assert (exists pre pv c d, length pv = length pre /\ Forall (fun b => b = BFree) pre /\
              (c < length pre + n)%nat /\ (d < length pre + n)%nat /\
              ext al n pv c = c1 /\ ext al n pv d = d0 /\
              (match r with
               | Some r => match arr_of ar r with Some (rs, rt) => Some ([], rs, rt) | None => None end
               | None => Some ([BFree; BFree], n, (1 + n)%nat)
               end = Some (pre, c, d)))
      as (pre & pv & c & d & Lpv & Fp & Lc & Ld & Vc & Vd & Hr).
    { destruct r as [r|].
      - rewrite arr_of_img in Cr. destruct (arr_of ar r) as [[rs rt]|] eqn:Er; [|discriminate].
        teq. destruct (A _ _ _ Er). exists [], [], rs, rt. cbn [length ext Nat.add]. repeat split; auto.
      - exists [BFree; BFree], [c1; d0], n, (1 + n)%nat. cbn [length ext Nat.add]. eqb_lia.
        repeat split; auto; try lia; repeat constructor. }
    rewrite Hr. clear Hr Cr. destruct (A _ _ _ El) as [Lls Llt].
    set (m := (length pre + n)%nat) in *.
    set (al0 := ext (ext al n pv) m [A0; b0]).
    assert (A00 : forall v, (v < n)%nat -> al0 v = al v).
    { intros v Hv. unfold al0. rewrite !ext_below by (unfold m; lia). reflexivity. }
    assert (A0c : al0 c = c1 /\ al0 d = d0) by (unfold al0; split; (rewrite ext_below by lia; assumption)).
    assert (A0m : al0 m = A0 /\ al0 (S m) = b0) by (unfold al0; cbn [ext]; eqb_lia; auto).
    destruct (walloc_complete 8 (2 + m) al0) as (al1 & A1 & S1).
    pose proof (walloc_length 8 (2 + m)) as [Lw Rw]. pose proof (walloc_wf 8 (2 + m)) as Ww.
    pose proof (walloc_sat 8 (2 + m) al1 S1) as Vw.
    destruct (walloc 8 (2 + m)) as [wl w]. cbn [fst snd] in *.
    set (q := (length wl + (2 + m))%nat).
    set (al2 := ext al1 q [Prod (word_ty 8) A0; Prod b0 c1; Prod b0 d0]).
    assert (A2 : forall v, (v < q)%nat -> al2 v = al1 v) by (intros v Hv; unfold al2; apply ext_below; exact Hv).
    assert (A20 : forall v, (v < 2 + m)%nat -> al2 v = al0 v).
    { intros v Hv. rewrite A2 by (unfold q; lia). apply A1. exact Hv. }
    assert (Vq : al2 q = Prod (word_ty 8) A0 /\ al2 (S q) = Prod b0 c1 /\ al2 (S (S q)) = Prod b0 d0).
    { unfold al2. cbn [ext]. eqb_lia. auto. }
    destruct Vq as (Vq0 & Vq1 & Vq2). destruct A0c as [A0c A0d]. destruct A0m as [A0m A0m1].
    eexists _, _, _, al2. split; [reflexivity|].
    split; [intros v Hv; rewrite A20 by (unfold m; lia); apply A00; exact Hv|].
    split.
    { apply sat_list_app. split; [apply sat_list_free; exact Fp|]. fold m.
      cbn [app sat_list holds]. split; [exact I|]. split; [exact I|].
      apply sat_list_app. split.
      - eapply (sat_list_agree al1 al2 q); [exact A2| |unfold q; cbn [Nat.add]; lia|exact S1].
        eapply Forall_wf_new_mono; [|exact Ww]. unfold q. lia.
      - change (sat_list al2 q [BProd w m; BProd (S m) c; BProd (S m) d]).
        cbn [sat_list holds]. rewrite Vq0, Vq1, Vq2.
        rewrite (A2 w) by (unfold q; lia). rewrite Vw.
        rewrite !(A20 m), !(A20 (S m)), !(A20 c), !(A20 d) by (unfold m in *; lia).
        rewrite A0m, A0m1, A0c, A0d. auto. }
    split.
    { fold q. intros x y Hin. cbn [In Nat.add] in Hin. destruct Hin as [Hin|[Hin|[]]]; injection Hin as <- <-.
      - rewrite Vq0, A20, A00 by (unfold m; lia). congruence.
      - rewrite Vq1, A20, A00 by (unfold m; lia). congruence. }
    fold q. cbn [img Nat.add]. rewrite Vq2, (A20 m), A0m by lia. reflexivity.
  - (* hidden *)
    destruct own; [discriminate|]. exists [], [], None, al. repeat split; auto. intros ? ? [].
  - (* fail *)
    destruct own as [[A0 B0]|]; [|discriminate].
    exists [BFree; BFree], [], (Some (n, (1 + n)%nat)), (ext al n [A0; B0]). fin_ext.
  - (* jet *)
    destruct own as [[A0 B0]|]; [|discriminate].
    destruct (jet_lookup jt family name_id) as [[gs gt]|]; [|discriminate]. teq. subst_vars.
    destruct (galloc_complete gs n al) as (al1 & A1 & S1).
    pose proof (galloc_length gs n) as L1. pose proof (galloc_wf gs n) as W1. pose proof (galloc_sat gs n) as V1.
    destruct (galloc gs n) as [l1 r1]. cbn [fst snd] in *.
    destruct (galloc_complete gt (length l1 + n) al1) as (al2 & A2 & S2).
    pose proof (galloc_sat gt (length l1 + n) al2 S2) as V2.
    destruct (galloc gt (length l1 + n)) as [l2 r2]. cbn [fst snd] in *.
    assert (S1' : sat_list al2 n l1).
    { eapply (sat_list_agree al1 al2 (length l1 + n)); [exact A2|exact W1|lia|exact S1]. }
    eexists _, _, _, al2. split; [reflexivity|].
    split; [intros v Hv; rewrite A2 by lia; apply A1; exact Hv|].
    split; [apply sat_list_app; split; assumption|].
    split; [intros ? ? []|]. cbn [img]. rewrite (V1 al2 S1'), V2. reflexivity.
  - (* word *)
    destruct own as [[A0 B0]|]; [|discriminate]. teq. subst_vars.
    match goal with H : (_ <=? _) = true |- _ => rewrite H end.
    match goal with H : (_ =? _) = true |- _ => rewrite H end. cbn [andb].
    destruct (walloc_complete n0 (1 + n) (ext al n [One])) as (al2 & A2 & S2).
    pose proof (walloc_sat n0 (1 + n) al2 S2) as V2.
    destruct (walloc n0 (1 + n)) as [wl w]. cbn [fst snd] in *.
    assert (E0 : al2 n = One) by (rewrite A2 by lia; cbn [ext]; rewrite Nat.eqb_refl; reflexivity).
    eexists _, _, _, al2. split; [reflexivity|].
    split; [intros v Hv; rewrite A2 by lia; apply ext_below; exact Hv|].
    split; [cbn [sat_list holds]; split; assumption|].
    split; [intros ? ? []|]. cbn [img]. rewrite E0, V2. reflexivity.
  - (* witness *)
    destruct own as [[A0 B0]|]; [|discriminate].
    exists [BFree; BFree], [], (Some (n, (1 + n)%nat)), (ext al n [A0; B0]). fin_ext.
Qed.
